//! vm — E6 ub-corpus.  Runs a corpus of call histories on the real suiron
//! crate; meant to be executed under Miri (`cargo +nightly miri run`), which is
//! the per-execution monitor "this execution had no undefined behaviour".
//!
//!   vm <corpus file> <shard> <nshards> <resume_after>
//!
//! Corpus: one case per line, fields separated by TAB:
//!   mode \t query [;; query ...] \t rule \t rule ...
//! modes: next (ask to exhaustion, then twice more), solve_all, solve (4 calls),
//!        load (write the rules to a file, load it, then ask to exhaustion),
//!        slow_then (solve_all a search that outlives the 1 s limit, then run `query`)
//! Prints `CASE <i>` before each case so that a Miri diagnostic can be attributed.

use std::rc::Rc;
use suiron::*;

thread_local! {
    /// every distinct rule text is parsed once per process (the interpreter is slow)
    static PARSED: std::cell::RefCell<std::collections::HashMap<String, Result<Rule, String>>> = std::cell::RefCell::new(std::collections::HashMap::new());
}

fn build(rules: &[&str]) -> Result<KnowledgeBase, String> {
    let mut kb = KnowledgeBase::new();
    for r in rules {
        let rule = PARSED.with(|m| m.borrow_mut().entry(r.to_string()).or_insert_with(|| parse_rule(r)).clone())?;
        add_rules(&mut kb, vec![rule]);
    }
    Ok(kb)
}

fn ask_all<'a>(kb: &'a KnowledgeBase, q: &str, reasks: usize) -> Result<usize, String> {
    let query = Rc::new(parse_query(q)?);
    let sn = make_base_node(Rc::clone(&query), kb);
    let mut n = 0;
    let mut nones = 0;
    while n < 40 && nones <= reasks {
        match next_solution(Rc::clone(&sn)) {
            Some(ss) => {
                let r = query.replace_variables(&ss);
                let _ = format_solution(&query, &r);
                n += 1;
            }
            None => nones += 1,
        }
    }
    Ok(n)
}

fn slow_rules() -> Vec<String> {
    let mut v: Vec<String> = (0..10).map(|i| format!("d({}).", i)).collect();
    v.push("slow($X) :- d($A), d($B), d($C), d($D), d($E), d($F), d($G), d($H), fail.".to_string());
    v.push("sl($X) :- d($X), $X < 2.".to_string());
    v.push("sl($X) :- slow($X).".to_string());
    v
}

fn main() {
    std::panic::set_hook(Box::new(|_| {}));
    let args: Vec<String> = std::env::args().skip(1).collect();
    let text = std::fs::read_to_string(&args[0]).expect("corpus file");
    let shard: usize = args[1].parse().unwrap();
    let nshards: usize = args[2].parse().unwrap();
    let resume_after: i64 = args[3].parse().unwrap();
    let mut done = 0;
    for (i, line) in text.lines().enumerate() {
        if i % nshards != shard || (i as i64) <= resume_after {
            continue;
        }
        let f: Vec<&str> = line.split('\t').collect();
        if f.len() < 2 {
            continue;
        }
        println!("CASE {}", i);
        let (mode, qs, rules) = (f[0], f[1], &f[2..]);
        // several queries may share one program: `q1 ;; q2 ;; q3`
        for q in qs.split(" ;; ") {
        // a documented panic (arithmetic on an unbound variable, ...) is not undefined behaviour
        let r: Result<usize, String> = std::panic::catch_unwind(std::panic::AssertUnwindSafe(|| match mode {
            "next" => {
                let kb = build(rules)?;
                ask_all(&kb, q, 2)
            }
            "solve_all" => {
                let kb = build(rules)?;
                let sn = make_base_node(Rc::new(parse_query(q)?), &kb);
                Ok(solve_all(sn).len())
            }
            "solve" => {
                let kb = build(rules)?;
                let sn = make_base_node(Rc::new(parse_query(q)?), &kb);
                let mut n = 0;
                for _ in 0..4 {
                    if solve(Rc::clone(&sn)) != "No more." {
                        n += 1;
                    }
                }
                Ok(n)
            }
            "load" => {
                let path = std::env::temp_dir().join(format!("vm-{}-{}.txt", std::process::id(), i));
                std::fs::write(&path, rules.join("\n")).map_err(|e| e.to_string())?;
                let mut kb = KnowledgeBase::new();
                let res = load_kb_from_file(&mut kb, &path.to_string_lossy());
                let _ = std::fs::remove_file(&path);
                if let Some(e) = res {
                    return Err(e);
                }
                let _ = format_kb(&kb);
                ask_all(&kb, q, 1)
            }
            "slow_then" => {
                // the timer thread fires in the middle of this search ...
                let mut all: Vec<String> = slow_rules();
                all.extend(rules.iter().map(|s| s.to_string()));
                let refs: Vec<&str> = all.iter().map(|s| s.as_str()).collect();
                let kb = build(&refs)?;
                let sn = make_base_node(Rc::new(parse_query("sl($Z)")?), &kb);
                let r1 = solve_all(sn);
                println!("  slow solve_all -> {:?}", r1);
                // ... and a further query runs after it
                let n = ask_all(&kb, q, 1)?;
                let sn = make_base_node(Rc::new(parse_query(q)?), &kb);
                let r2 = solve_all(sn);
                println!("  then {} answers, solve_all -> {:?}", n, r2);
                Ok(n)
            }
            other => Err(format!("unknown mode {}", other)),
        })).unwrap_or_else(|_| Err("panicked".to_string()));
        match r {
            Ok(n) => println!("  ok {} answers", n),
            Err(e) => println!("  rejected: {}", e),
        }
        }
        done += 1;
    }
    println!("DONE {}", done);
}
