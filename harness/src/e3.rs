//! E3 direct part — C15: every element sequence up to length 5 is turned into
//! a list by each of the engine's list builders (constructor, parser,
//! renaming) and the result is decoded and checked for well-formedness.
//! (The lists built by append / include / exclude are checked through the
//! solver in the same run: see e2::enumerate("C15").)

use crate::e1::panic_text;
use crate::supervise::Worker;
use crate::term::*;
use serde_json::json;
use std::panic::{catch_unwind, AssertUnwindSafe};
use suiron::Unifiable;

fn kinds() -> Vec<T> {
    vec![
        atom("a"),
        T::Int(1),
        var(1, "$X"),
        T::Anon,
        list(vec![]),
        list(vec![atom("b")]),
        cplx("f", vec![atom("a")]),
        T::Float(1.5),
        // nesting three deep of the same bracket kind, with a sibling before the innermost term
        list(vec![atom("b"), list(vec![atom("c"), atom("d")])]),
        cplx("f", vec![atom("a"), cplx("g", vec![atom("b"), atom("c")])]),
    ]
}

fn erase_ids(t: &T) -> T {
    t.map_vars(&mut |_, n| T::Var(0, n.to_string()))
}

pub fn direct(w: &mut Worker, idx: &mut u64, max_len: usize, emit: &mut dyn FnMut(&mut Worker, &str, String, String, T)) {
    let ks = kinds();
    let mut seqs: Vec<Vec<T>> = vec![vec![]];
    let mut frontier: Vec<Vec<T>> = vec![vec![]];
    for _ in 0..max_len {
        let mut next = vec![];
        for s in &frontier {
            for k in &ks {
                let mut s2 = s.clone();
                s2.push(k.clone());
                next.push(s2);
            }
        }
        seqs.extend(next.iter().cloned());
        frontier = next;
    }
    for es in seqs {
        let my = *idx;
        *idx += 1;
        if !w.mine(my) {
            continue;
        }
        if w.describe.is_some() {
            w.emit(json!({"t":"describe","class":"list-direct","witness":{"engine":"e3","elements": list(es.clone()).to_json(), "text": list(es.clone()).text_ids()}}));
            return;
        }
        w.begin(my);
        w.count("sequences", 1);
        let want = list(es.clone());
        let last_is_list = matches!(es.last(), Some(T::List(..)));
        let us: Vec<Unifiable> = es.iter().map(to_suiron).collect();

        // (a) constructor, no bar
        if !es.is_empty() {
            match catch_unwind(AssertUnwindSafe(|| suiron::make_linked_list(false, us.clone()))) {
                Err(p) => emit(w, "constructor-panic", format!("make_linked_list(false, ..) panicked: {}", panic_text(p)), want.text_ids(), want.clone()),
                Ok(l) => {
                    w.count("built.constructor", 1);
                    if let Err(e) = wellformed(&l) {
                        emit(w, "constructor-malformed", format!("make_linked_list(false, {}) is malformed: {}", want.text_ids(), e), want.text_ids(), want.clone());
                    }
                    let got = decode(&l);
                    let spliced = if last_is_list {
                        let mut e2 = es[..es.len() - 1].to_vec();
                        Some(T::List(e2.drain(..).collect(), Some(Box::new(es.last().unwrap().clone()))).norm())
                    } else {
                        None
                    };
                    let ok = got == want || spliced.as_ref().map_or(false, |s| *s == got);
                    if !ok {
                        emit(w, "constructor-elements", format!("make_linked_list(false, {}) holds {}", want.text_ids(), got.text_ids()), want.text_ids(), want.clone());
                    }
                }
            }
        }
        // (b) constructor with bar: trailing tail variable / trailing `$_` / trailing list
        for tail in [var(3, "$T"), T::Anon, list(vec![atom("c"), atom("d")]), list(vec![])] {
            let mut us2 = us.clone();
            us2.push(to_suiron(&tail));
            if es.is_empty() {
                continue; // `[ | $T]` is not a list of the documented syntax
            }
            let want_t = T::List(es.clone(), Some(Box::new(tail.clone()))).norm();
            match catch_unwind(AssertUnwindSafe(|| suiron::make_linked_list(true, us2.clone()))) {
                Err(p) => emit(w, "constructor-bar-panic", format!("make_linked_list(true, ..) panicked: {}", panic_text(p)), want_t.text_ids(), want_t.clone()),
                Ok(l) => {
                    w.count("built.constructor_bar", 1);
                    if let Err(e) = wellformed(&l) {
                        emit(w, "constructor-bar-malformed", format!("make_linked_list(true, ..) for {} is malformed: {}", want_t.text_ids(), e), want_t.text_ids(), want_t.clone());
                    }
                    let got = decode(&l);
                    if got != want_t {
                        emit(w, "constructor-bar-elements", format!("make_linked_list(true, ..) for {} holds {}", want_t.text_ids(), got.text_ids()), want_t.text_ids(), want_t.clone());
                    }
                }
            }
        }
        // (c) parser, with and without tail variable
        for tail in [None, Some(var(0, "$T"))] {
            if es.is_empty() && tail.is_some() {
                continue;
            }
            let want_t = erase_ids(&T::List(es.clone(), tail.clone().map(Box::new)));
            let text = want_t.text();
            match catch_unwind(AssertUnwindSafe(|| suiron::parse_linked_list(&text))) {
                Err(p) => emit(w, "parser-panic", format!("parse_linked_list({}) panicked: {}", text, panic_text(p)), text.clone(), want_t.clone()),
                Ok(Err(e)) => emit(w, "parser-rejects", format!("parse_linked_list({}) rejected: {}", text, e), text.clone(), want_t.clone()),
                Ok(Ok(l)) => {
                    w.count("built.parser", 1);
                    if let Err(e) = wellformed(&l) {
                        emit(w, "parser-malformed", format!("parse_linked_list({}) is malformed: {}", text, e), text.clone(), want_t.clone());
                    }
                    let got = decode(&l);
                    if got != want_t {
                        emit(w, "parser-elements", format!("parse_linked_list({}) holds {}", text, got.text_ids()), text.clone(), want_t.clone());
                    }
                    // (d) renaming the parsed list
                    match catch_unwind(AssertUnwindSafe(|| l.clone().recreate_variables(&mut suiron::VarMap::new()))) {
                        Err(p) => emit(w, "rename-panic", format!("recreate_variables({}) panicked: {}", text, panic_text(p)), text.clone(), want_t.clone()),
                        Ok(r) => {
                            w.count("built.renamed", 1);
                            if let Err(e) = wellformed(&r) {
                                emit(w, "rename-malformed", format!("renamed {} is malformed: {}", text, e), text.clone(), want_t.clone());
                            }
                            let got = erase_ids(&decode(&r));
                            if got != want_t {
                                emit(w, "rename-elements", format!("renamed {} holds {}", text, got.text_ids()), text.clone(), want_t.clone());
                            }
                        }
                    }
                }
            }
        }
        w.distinct("outcomes", &(es.len(), last_is_list, es.iter().filter(|e| matches!(e, T::List(..))).count()));
    }
}
