//! E2 — solver-space.  Every program of the bounded families × every query ×
//! the full `next_solution` history (to exhaustion, then re-asks) is executed
//! on the real engine and compared, step by step, with the reference
//! interpreter.  Serves C01 C02 C03 C04 C05 C10 C11 (and C22 via sessions.rs).

use crate::gen::{self, Case};
use crate::implrun::*;
use crate::prog::*;
use crate::refsolve::{self, RefResult};
use crate::supervise::Worker;
use crate::term::*;
use serde_json::{json, Value};
use std::collections::HashMap;

pub const BUDGET: u64 = 4000;
pub const MAX_ANSWERS: usize = 70;
/// step budget of the reference for the scale families (long lists, many clauses)
pub const BUDGET_SCALE: u64 = 300_000;
pub const REASKS: usize = 3;
pub const MAX_VARIANT_RUNS: usize = 48;

pub fn enumerate(prop: &str, tier: &str, f: &mut dyn FnMut(Case)) {
    let lv: u8 = if tier == "thorough" { 2 } else { 1 };
    match prop {
        "C01" => {
            gen::lists(lv, f);
            gen::builtins(lv, f);
            gen::nfacts(lv, f);
            crate::gen_scale::core(lv, f);
            crate::gen_scale::names(lv, f);
            crate::gen_mix::mix(lv, "all", f);
            crate::gen_mix::lookalikes(lv, f);
            gen::core(lv, f);
        }
        "C12" => {
            crate::gen3::arith(lv, f);
            crate::gen_scale::builtins(lv, "arith", f);
        }
        "C14" => {
            crate::gen3::cmp(lv, f);
            crate::gen_scale::cmp(lv, f);
            crate::gen_scale::cmp_chain(lv, f);
        }
        "C16" => {
            crate::gen3::append(lv, f);
            crate::gen_scale::builtins(lv, "append", f);
        }
        "C17" => {
            crate::gen3::count(lv, f);
            crate::gen3::filter(lv, f);
            crate::gen3::functor(lv, f);
            crate::gen3::join(lv, f);
            for w in ["count", "filter", "functor", "join"] {
                crate::gen_scale::builtins(lv, w, f);
            }
        }
        "C15" => {
            crate::gen3::append(lv, f);
            crate::gen3::filter(lv, f);
            crate::gen_scale::builtins(lv, "append", f);
            crate::gen_scale::builtins(lv, "filter", f);
        }
        "C08" => {
            gen::lists(lv, f);
            gen::nfacts(lv, f);
            crate::gen_scale::alias(lv, f);
        }
        "C02" => {
            crate::gen_scale::cut(lv, f);
            crate::gen_mix::mix(lv, "cut", f);
            gen::cut(lv, f);
        }
        "C03" => {
            crate::gen_scale::not(lv, f);
            crate::gen_scale::not_cmp(lv, f);
            crate::gen_mix::mix(lv, "not", f);
            crate::gen_mix::lookalikes(lv, f);
            gen::not(lv, f);
        }
        "C04" => {
            gen::output(lv, f);
            gen::timeg(lv, f);
            crate::gen_scale::output(lv, f);
            crate::gen_mix::mix(lv, "out", f);
        }
        "C05" | "C10" | "C11" => {
            let l = if tier == "thorough" { 1 } else { 0 };
            gen::lists(l, f);
            gen::cut(l, f);
            gen::not(l, f);
            // C05: an alternative that prints and then fails needs three leaves
            gen::output(if prop == "C05" { 1 } else { l }, f);
            if prop == "C05" {
                gen::timeg(1, f);
            }
            gen::builtins(l, f);
            gen::nfacts(if prop == "C10" { l + 1 } else { l }, f);
            // the scale families ride along (their histories are few)
            crate::gen_scale::core(1, f);
            crate::gen_scale::cut(1, f);
            crate::gen_scale::not(1, f);
            crate::gen_scale::output(1, f);
            crate::gen_scale::alias(1, f);
            crate::gen_scale::names(1, f);
            crate::gen_mix::mix(1, "all", f);
            crate::gen_mix::lookalikes(1, f);
            gen::core(l, f);
        }
        _ => {}
    }
}

fn goal_kinds(p: &Program) -> String {
    fn walk(g: &G, s: &mut Vec<&'static str>) {
        let k = match g {
            G::Call(_) => "call",
            G::Unify(..) => "=",
            G::Cmp(..) => "cmp",
            G::And(gs) => {
                gs.iter().for_each(|x| walk(x, s));
                "and"
            }
            G::Or(gs) => {
                gs.iter().for_each(|x| walk(x, s));
                "or"
            }
            G::Not(g) => {
                walk(g, s);
                "not"
            }
            G::Time(g) => {
                walk(g, s);
                "time"
            }
            G::Cut => "!",
            G::Fail => "fail",
            G::Nl => "nl",
            G::Print(_) => "print",
            G::PrintList(_) => "print_list",
            G::Bip(..) => "bip",
        };
        if !s.contains(&k) {
            s.push(k)
        }
    }
    let mut s = vec![];
    for c in p.iter().filter(|c| matches!(&c.head, T::Cplx(f, _) if f == "p" || f == "u")) {
        if let Some(b) = &c.body {
            walk(b, &mut s)
        }
    }
    s.sort();
    s.join("")
}

/// The property whose statement governs a family's answers.
pub fn prop_of_family(family: &str) -> &'static str {
    match family.split('@').next().unwrap_or("") {
        "cut" => "C02",
        "not" => "C03",
        "output" | "timeg" => "C04",
        "arith" => "C12",
        "cmp" => "C14",
        "append" => "C16",
        "count" | "filter" | "functor" | "join" => "C17",
        _ => "C01",
    }
}

fn build(family: &str, prog: &Program) -> Result<suiron::KnowledgeBase, String> {
    if family.ends_with("@infix") {
        build_kb_text(prog, true)
    } else if family.ends_with("@text") {
        build_kb_text(prog, false)
    } else {
        Ok(build_kb(prog))
    }
}

pub struct Verdicts {
    pub viols: Vec<(String, String, String)>,
}

fn ans_text(a: &Option<T>) -> String {
    match a {
        Some(t) => t.text_ids(),
        None => "None".into(),
    }
}

/// Compare one history.  Mismatches up to and including the first `None` are
/// charged to `main_prop` (answers) or C04 (output); anything after the
/// engine's first `None` is C05.
pub fn judge(main_prop: &str, family: &str, prog: &Program, query: &T, rf: &RefResult, im: &ImplRun) -> Verdicts {
    let mut v = vec![];
    let kinds = goal_kinds(prog);
    let cls = |k: &str| format!("{}:{}:{}", k, family, kinds);
    let ctx = || format!("{}  ?- {}", program_text(prog), query.text());
    let n_ref = rf.steps.len(); // answers + final None
    let mut first_none: Option<usize> = None;
    for (i, st) in im.steps.iter().enumerate() {
        if let Some(c) = st.cycle {
            v.push(("C08".to_string(), cls("answer-cycle"), format!("answer {} has a binding cycle through id {} — {}", i + 1, c, ctx())));
        }
        if let Some(m) = &st.malformed {
            v.push(("C15".to_string(), cls("answer-malformed-list"), format!("answer {} contains a malformed list: {} — {}", i + 1, m, ctx())));
        }
        if let Some(m) = &st.stale_ids {
            v.push(("C10".to_string(), cls("stale-id"), format!("{} — {}", m, ctx())));
        }
        let after_none = first_none.is_some();
        let (r_ans, r_out): (Option<T>, String) = if i < n_ref { (rf.steps[i].0.clone(), rf.steps[i].1.clone()) } else { (None, String::new()) };
        let same_ans = match (&st.ans, &r_ans) {
            (None, None) => true,
            (Some(x), Some(y)) => variant_vec(std::slice::from_ref(x), std::slice::from_ref(y), false),
            _ => false,
        };
        let ans_known = st.cycle.is_none();
        if !same_ans && ans_known {
            if after_none {
                v.push(("C05".to_string(), cls("answer-after-exhaustion"), format!("call {} (after the engine said 'no more') returned {} — {}", i + 1, ans_text(&st.ans), ctx())));
            } else {
                let kind = match (&st.ans, &r_ans) {
                    (None, Some(_)) => "missing-answer",
                    (Some(_), None) => "extra-answer",
                    _ => "wrong-answer",
                };
                v.push((main_prop.to_string(), cls(kind), format!("call {}: engine {} , reference {} — {}", i + 1, ans_text(&st.ans), ans_text(&r_ans), ctx())));
                // one divergence is enough: later steps are shifted.  But when the engine said
                // "no more" too early, whatever it still answers afterwards is C05's business.
                if st.ans.is_none() {
                    for (k, later) in im.steps.iter().enumerate().skip(i + 1) {
                        if later.ans.is_some() {
                            v.push(("C05".to_string(), cls("answer-after-exhaustion"), format!("call {} reported 'no more', call {} returned {} — {}", i + 1, k + 1, ans_text(&later.ans), ctx())));
                            break;
                        }
                        if !later.out.is_empty() {
                            v.push(("C05".to_string(), cls("output-after-exhaustion"), format!("call {} reported 'no more', call {} wrote {:?} — {}", i + 1, k + 1, later.out, ctx())));
                            break;
                        }
                    }
                }
                break;
            }
        }
        if !crate::refbuiltins::out_matches(&r_out, &st.out) {
            if after_none {
                v.push(("C05".to_string(), cls("output-after-exhaustion"), format!("call {} (after 'no more') wrote {:?} — {}", i + 1, st.out, ctx())));
            } else {
                v.push(("C04".to_string(), cls("output-mismatch"), format!("call {}: engine wrote {:?}, reference {:?} — {}", i + 1, st.out, r_out, ctx())));
                break;
            }
        }
        if st.ans.is_none() && first_none.is_none() {
            first_none = Some(i);
        }
    }
    if let Some(p) = &im.panic {
        v.push((main_prop.to_string(), cls("panic"), format!("engine panicked: {} — {}", p, ctx())));
    } else if first_none.is_none() && v.is_empty() {
        v.push((main_prop.to_string(), cls("no-exhaustion"), format!("engine still answering after {} calls, reference has {} answers — {}", im.steps.len(), n_ref - 1, ctx())));
    }
    Verdicts { viols: v }
}

pub fn witness(family: &str, prog: &Program, query: &T) -> Value {
    json!({"engine":"e2","family":family,"program":program_json(prog),"query":query.to_json(),"text":format!("{}  ?- {}", program_text(prog), query.text())})
}

fn renamings(p: &Program, query: &T) -> Vec<(&'static str, Program)> {
    let mut qnames: Vec<String> = vec![];
    query.map_vars(&mut |_, n| {
        if !qnames.contains(&n.to_string()) {
            qnames.push(n.to_string())
        }
        T::Anon
    });
    let pool: Vec<String> = qnames.iter().cloned().chain(["$A", "$B", "$C", "$D", "$E", "$F", "$G2", "$H2"].iter().map(|s| s.to_string())).collect();
    let per_clause = |c: &Clause, f: &dyn Fn(usize, &str) -> String| -> Clause {
        let mut seen: Vec<String> = vec![];
        c.map_terms(&mut |t: &T| {
            t.map_vars(&mut |_, n| {
                let i = match seen.iter().position(|x| x == n) {
                    Some(i) => i,
                    None => {
                        seen.push(n.to_string());
                        seen.len() - 1
                    }
                };
                T::Var(0, f(i, n))
            })
        })
    };
    let r1: Program = p.iter().map(|c| per_clause(c, &|_, n| format!("{}q", n))).collect();
    let pool2 = pool.clone();
    // (a clause with more variables than the pool has names continues with $P<i>: never two variables, one name)
    let r2: Program = p.iter().map(|c| per_clause(c, &|i, _| if i < pool2.len() { pool2[i].clone() } else { format!("$P{}", i) })).collect();
    let r3: Program = p
        .iter()
        .map(|c| {
            per_clause(c, &|_, n| match n {
                "$X" => "$Y".to_string(),
                "$Y" => "$X".to_string(),
                o => o.to_string(),
            })
        })
        .collect();
    // every clause gets names of its own (no name occurs in two clauses, nor in the query)
    let r4: Program = p.iter().enumerate().map(|(ci, c)| per_clause(c, &|i, _| format!("$C{}v{}", ci, i))).collect();
    // names that look like printed variables (`$V_1`, `$V_2`); this variant is built through the text parser
    let r5: Program = p.iter().map(|c| per_clause(c, &|i, _| format!("$V_{}", i + 1))).collect();
    vec![("suffix", r1), ("query-names", r2), ("swap-xy", r3), ("all-distinct", r4), ("numbered@text", r5)]
}

pub fn worker(prop: &str, tier: &str) {
    let mut w = Worker::from_env();
    // guard the oracle first: the repository's own expected answers
    if w.shard == 0 && w.describe.is_none() {
        for (p, q, expected) in gen::oracle_guards() {
            let r = refsolve::run(&p, &number_query(&q), BUDGET, MAX_ANSWERS);
            let got: Vec<T> = r.steps.iter().filter_map(|s| s.0.clone()).collect();
            if r.skipped.is_some() || got != expected {
                w.emit(json!({"t":"viol","prop":prop,"class":"oracle-guard","kind":"oracle","msg":format!("reference interpreter does not reproduce the repository's documented answers for {}", q.text()),"witness":witness("guard",&p,&q)}));
            }
            w.count("oracle_guard_checks", 1);
        }
    }
    let mut idx: u64 = 0;
    let mut emitted: HashMap<(String, String), u32> = HashMap::new();
    let mut n_samples = 0;
    let probe = prop == "C10";
    if prop == "C15" {
        // the direct part: constructor, parser, renaming on every element sequence
        let max_len = if tier == "thorough" { 6 } else { 5 };
        let mut first = true;
        crate::e3::direct(&mut w, &mut idx, max_len, &mut |w: &mut Worker, kind: &str, msg: String, text: String, t: T| {
            w.count("viol.C15", 1);
            let wit = if first { json!({"engine":"e3","elements": t.to_json(), "text": text}) } else { json!({"engine":"e3","elements": t.to_json(), "text": text}) };
            first = false;
            w.emit(json!({"t":"viol","prop":"C15","class":format!("{}:list-direct", kind),"kind":kind,"msg":msg,"witness":wit}));
        });
        if w.describe.is_some() && w.describe.unwrap() < idx {
            return;
        }
    }
    let mut body = |case: Case, w: &mut Worker| {
        let my = idx;
        idx += 1;
        if !w.mine(my) {
            return;
        }
        if w.describe.is_some() {
            w.emit(json!({"t":"describe","class":format!("{}:{}", case.family, goal_kinds(&case.prog)),"witness":witness(case.family,&case.prog,&case.queries[0]),"note":"one of the queries of this program"}));
            return;
        }
        w.begin(my);
        w.count("programs", 1);
        let kb = match build(case.family, &case.prog) {
            Ok(kb) => kb,
            Err(_) => {
                w.count("skipped.parser-rejected-the-text", 1);
                return;
            }
        };
        for q in &case.queries {
            let qn = number_query(q);
            // cut family: the set of behaviours C02 accepts (see Ref::choose)
            let budget = if case.family.ends_with("scale") { BUDGET_SCALE } else { BUDGET };
            let is_cut_family = case.family.split('@').next() == Some("cut");
            let mut variants: Vec<RefResult> = if is_cut_family {
                match refsolve::run_variants(&case.prog, &qn, budget, MAX_ANSWERS, MAX_VARIANT_RUNS) {
                    Some(v) => v,
                    None => {
                        w.count("skipped.too-many-cut-variants", 1);
                        continue;
                    }
                }
            } else {
                vec![refsolve::run(&case.prog, &qn, budget, MAX_ANSWERS)]
            };
            if variants.iter().skip(1).any(|v| v.skipped.is_some()) {
                w.count("skipped.variant-outside", 1);
                continue;
            }
            w.count(&format!("cut_variants.{}", variants.len().min(9)), 1);
            let rf = variants.remove(0);
            if let Some(why) = &rf.skipped {
                let key = why.split(':').next().unwrap_or("skip");
                w.count(&format!("skipped.{}", key), 1);
                if why.starts_with("oracle") {
                    w.emit(json!({"t":"viol","prop":prop,"class":"oracle-error","kind":"oracle","msg":why,"witness":witness(case.family,&case.prog,q)}));
                }
                continue;
            }
            let opts = RunOpts { reasks: REASKS, max_steps: MAX_ANSWERS + REASKS + 3, probe_fresh: probe, reset_globals: true };
            let im = run_next(w, &kb, &case.prog, q, &opts);
            w.count("histories", 1);
            w.count("next_solution_calls", im.steps.len() as u64);
            w.count(&format!("family.{}", case.family), 1);
            let n_answers = rf.steps.len() - 1;
            w.count(&format!("answers.{}", n_answers.min(9)), 1);
            // vacuity counters
            if rf.stats.cut_executed > 0 {
                w.count("hist.cut_executed", 1);
            }
            if rf.stats.cut_pruned_clauses > 0 {
                w.count("hist.cut_pruned_later_clause", 1);
            }
            if rf.stats.cut_after_answer > 0 {
                w.count("hist.cut_ended_call_after_answer", 1);
            }
            if rf.stats.not_succeeded > 0 {
                w.count("hist.not_succeeded", 1);
            }
            if rf.stats.not_failed > 0 {
                w.count("hist.not_failed", 1);
            }
            if rf.stats.outputs > 0 {
                w.count("hist.with_output", 1);
            }
            if rf.steps.iter().any(|s| !s.1.is_empty()) && n_answers > 1 {
                w.count("hist.output_across_backtracking", 1);
            }
            w.distinct("outcomes", &(case.family, n_answers, rf.steps.iter().map(|s| s.1.len()).collect::<Vec<_>>(), rf.stats.cut_executed.min(3), rf.stats.not_failed.min(2)));

            // C15 ("holds exactly those elements") owns the lists built by append / filters in its own run
            let main_prop = if prop == "C15" { "C15" } else { prop_of_family(case.family) };
            // a family run on behalf of a rider property (C05/C10/C11) still
            // charges answer mismatches to the family's own property
            let mut viols = judge(main_prop, case.family, &case.prog, q, &rf, &im).viols;
            if !viols.is_empty() {
                // accepted if the engine follows any of the other permitted behaviours
                for alt in &variants {
                    let v2 = judge(main_prop, case.family, &case.prog, q, alt, &im).viols;
                    if v2.is_empty() {
                        viols = v2;
                        w.count("hist.matched_restricted_cut_variant", 1);
                        break;
                    }
                }
            }

            // solve_all / solve twins (C01 last sentence; C23 fast path)
            if (prop == "C01" || prop == "C02") && my % 8 == 0 && im.panic.is_none() {
                match run_solve_all(w, &kb, q) {
                    Ok(None) => {}
                    Ok(Some((strings, sa_wall, sa_cpu))) => {
                        w.count("solve_all_calls", 1);
                        // expected strings: rendered by the harness from the answers of the
                        // twin next_solution history (itself judged against the reference above)
                        let expect: Vec<Option<String>> = im.steps.iter().filter_map(|s| s.ans.as_ref()).map(|a| format_answer(&qn, a)).collect();
                        let twin: Vec<String> = im.steps.iter().filter(|s| s.ans.is_some()).filter_map(|s| s.fmt.clone()).collect();
                        // a search that really took longer than the limit may report its timeout (C23): what it
                        // returned before the message must then be a prefix of the answers
                        let legit_timeout = strings.last().map_or(false, |s| s.starts_with("Query timed out")) && sa_wall >= 0.9;
                        let strings: Vec<String> = if legit_timeout { strings[..strings.len() - 1].to_vec() } else { strings };
                        if legit_timeout {
                            w.count("solve_all.timed_out_after_a_second", 1);
                        }
                        let mut bad = if legit_timeout { strings.len() > expect.len() } else { strings.len() != expect.len() };
                        if !bad {
                            for (i, s) in strings.iter().enumerate() {
                                match &expect[i] {
                                    Some(e) => bad |= s != e,
                                    None => bad |= twin.get(i).map_or(false, |t| t != s),
                                }
                            }
                        }
                        if bad {
                            viols.push(("C01".into(), format!("solve_all-mismatch:{}:{}", case.family, goal_kinds(&case.prog)), format!("solve_all (wall {:.3} s, cpu {:.3} s) returned {:?}, reference answers {:?} — {}", sa_wall, sa_cpu, strings, rf.steps.iter().filter_map(|s| s.0.as_ref().map(|a| a.text_ids())).collect::<Vec<_>>(), program_text(&case.prog) + "  ?- " + &q.text())));
                        }
                    }
                    Err(p) => viols.push(("C01".into(), format!("solve_all-panic:{}", case.family), format!("solve_all panicked: {}", p))),
                }
            }

            // C11: the same history under alpha-renamings of the clauses
            if prop == "C11" && im.panic.is_none() {
                let same_run = |a: &ImplRun, b: &ImplRun| {
                    a.steps.len() == b.steps.len()
                        && b.panic.is_none()
                        && a.steps.iter().zip(b.steps.iter()).all(|(x, y)| {
                            crate::refbuiltins::normalise_timing(&x.out) == crate::refbuiltins::normalise_timing(&y.out)
                                && match (&x.ans, &y.ans) {
                                    (None, None) => true,
                                    (Some(p), Some(q)) => variant_vec(std::slice::from_ref(p), std::slice::from_ref(q), false),
                                    _ => false,
                                }
                        })
                };
                // the text-built variant is only meaningful where the source text says the same as the
                // API-built program (not((a, b)) and unquoted formats with brackets do not survive it)
                let text_faithful = match build_kb_text(&case.prog, false) {
                    Ok(kbt) => {
                        let imt = run_next(w, &kbt, &case.prog, q, &opts);
                        same_run(&im, &imt)
                    }
                    Err(_) => false,
                };
                for (rname, rp) in renamings(&case.prog, q) {
                    if rname.ends_with("@text") && !text_faithful {
                        w.count("skipped.text-form-not-faithful", 1);
                        continue;
                    }
                    let kb2 = if rname.ends_with("@text") {
                        match build_kb_text(&rp, false) {
                            Ok(k) => k,
                            Err(_) => {
                                w.count("skipped.renamed-text-rejected", 1);
                                continue;
                            }
                        }
                    } else {
                        build_kb(&rp)
                    };
                    let im2 = run_next(w, &kb2, &rp, q, &opts);
                    w.count("renamed_histories", 1);
                    let same = im2.steps.len() == im.steps.len()
                        && im2.panic.is_none()
                        && im.steps.iter().zip(im2.steps.iter()).all(|(x, y)| {
                            crate::refbuiltins::normalise_timing(&x.out) == crate::refbuiltins::normalise_timing(&y.out)
                                && match (&x.ans, &y.ans) {
                                    (None, None) => true,
                                    (Some(p), Some(q)) => variant_vec(std::slice::from_ref(p), std::slice::from_ref(q), false),
                                    _ => false,
                                }
                        });
                    if !same {
                        let a1: Vec<String> = im.steps.iter().map(|s| format!("{}/{:?}", ans_text(&s.ans), s.out)).collect();
                        let a2: Vec<String> = im2.steps.iter().map(|s| format!("{}/{:?}", ans_text(&s.ans), s.out)).collect();
                        viols.push(("C11".into(), format!("renaming-changes-answers:{}:{}:{}", rname, case.family, goal_kinds(&case.prog)), format!("as written: {:?}; renamed ({}): {:?} — {}  VERSUS  {}  ?- {}", a1, rname, a2, program_text(&case.prog), program_text(&rp), q.text())));
                    }
                }
            }

            for (p, class, msg) in viols {
                w.count(&format!("viol.{}", p), 1);
                let n = emitted.entry((p.clone(), class.clone())).or_insert(0);
                *n += 1;
                if *n <= 2 {
                    w.emit(json!({"t":"viol","prop":p,"class":class,"kind":class.split(':').next().unwrap_or(""),"msg":msg,"witness":witness(case.family,&case.prog,q)}));
                } else {
                    w.emit(json!({"t":"viol","prop":p,"class":class,"kind":"","msg":"(further occurrence)","witness":null}));
                }
            }
            if n_samples < 2 && (my % 1013 == 1 || w.shard < 2) {
                n_samples += 1;
                let steps: Vec<String> = im.steps.iter().map(|s| format!("{} {:?}", ans_text(&s.ans), s.out)).collect();
                w.emit(json!({"t":"sample","v":{"program":program_text(&case.prog),"query":q.text(),"engine_steps":steps}}));
            }
        }
    };
    // `enumerate` wants a FnMut(Case); thread the worker through a RefCell-free closure
    let wp: *mut Worker = &mut w;
    enumerate(prop, tier, &mut |c| body(c, unsafe { &mut *wp }));
    w.done();
}

/// Replay one recorded history: both sides printed, twice.
pub fn replay(wit: &Value) -> bool {
    let prog = program_from_json(&wit["program"]).expect("program");
    let q = T::from_json(&wit["query"]).expect("query");
    let family = wit["family"].as_str().unwrap_or("core").to_string();
    println!("program: {}", program_text(&prog));
    println!("query  : {}", q.text());
    let budget = if family.ends_with("scale") { BUDGET_SCALE } else { BUDGET };
    let rf = refsolve::run(&prog, &number_query(&q), budget, MAX_ANSWERS);
    if let Some(s) = &rf.skipped {
        println!("reference: not judged ({})", s);
    }
    for (i, s) in rf.steps.iter().enumerate() {
        println!("reference call {}: {}  output {:?}", i + 1, ans_text(&s.0), s.1);
    }
    let mut w = Worker::from_env();
    let kb = match build(&family, &prog) {
        Ok(kb) => kb,
        Err(e) => {
            eprintln!("the parser rejected the program text: {}", e);
            return true;
        }
    };
    let opts = RunOpts { reasks: REASKS, max_steps: MAX_ANSWERS + REASKS + 3, probe_fresh: true, reset_globals: true };
    let mut runs = vec![];
    for round in 0..2 {
        let im = run_next(&mut w, &kb, &prog, &q, &opts);
        for (i, s) in im.steps.iter().enumerate() {
            eprintln!("engine (run {}) call {}: {}  output {:?}", round, i + 1, ans_text(&s.ans), s.out);
        }
        if let Some(p) = &im.panic {
            eprintln!("engine (run {}) PANIC: {}", round, p);
        }
        runs.push(im);
    }
    let same = runs[0].steps.len() == runs[1].steps.len() && runs[0].steps.iter().zip(runs[1].steps.iter()).all(|(a, b)| crate::refbuiltins::normalise_timing(&a.out) == crate::refbuiltins::normalise_timing(&b.out) && a.ans == b.ans);
    if !same {
        eprintln!("NON-DETERMINISTIC: the two engine runs differ");
    }
    if rf.skipped.is_some() {
        return true;
    }
    let main_prop = prop_of_family(&family);
    let mut vs = judge(main_prop, &family, &prog, &q, &rf, &runs[0]).viols;
    if !vs.is_empty() && family.split('@').next() == Some("cut") {
        if let Some(vars) = refsolve::run_variants(&prog, &number_query(&q), budget, MAX_ANSWERS, MAX_VARIANT_RUNS) {
            eprintln!("{} behaviours are acceptable under C02 for this history", vars.len());
            for (vi, alt) in vars.iter().enumerate() {
                eprintln!("  variant {}: {:?}", vi, alt.steps.iter().map(|s| ans_text(&s.0)).collect::<Vec<_>>());
                if judge(main_prop, &family, &prog, &q, alt, &runs[0]).viols.is_empty() {
                    vs.clear();
                }
            }
        }
    }
    for (p, c, m) in &vs {
        eprintln!("VERDICT {} {} : {}", p, c, m);
    }
    if vs.is_empty() {
        eprintln!("VERDICT: no violation on this history");
    }
    vs.is_empty()
}
