//! E4 — syntax-space.  C18: every string up to a length bound over the syntax
//! alphabet, and every single (thorough: double) edit of a valid corpus, is
//! fed to every parser entry point under a crash / hang monitor.
//! C19/C20/C21: see the functions below.

use crate::e1::panic_text;
use crate::prog::*;
use crate::refbuiltins::Rel;
use crate::supervise::Worker;
use crate::term::*;
use serde_json::{json, Value};
use std::cell::RefCell;
use std::collections::HashMap;
use std::panic::{catch_unwind, AssertUnwindSafe};
use suiron::{Goal, Unifiable};

pub const SIGMA: [&str; 26] = ["a", "X", "_", "$", "1", ".", ",", ";", "(", ")", "[", "]", "|", "\"", "\\", " ", "=", "<", ">", "-", "+", "*", "/", ":", "!", "é"];
// `%` and `日` of the design alphabet are exercised through the corpus edits
// (comment markers matter only to the file reader, which C21 covers).

thread_local! {
    static LAST_PANIC_SITE: RefCell<String> = RefCell::new(String::new());
}

pub fn install_site_hook() {
    std::panic::set_hook(Box::new(|info| {
        let site = info.location().map(|l| format!("{}:{}", l.file().rsplit('/').next().unwrap_or(""), l.line())).unwrap_or_default();
        LAST_PANIC_SITE.with(|s| *s.borrow_mut() = site);
    }));
}

fn last_site() -> String {
    LAST_PANIC_SITE.with(|s| s.borrow().clone())
}

pub const ENTRIES: [&str; 10] = ["parse_term", "parse_linked_list", "parse_complex", "parse_function", "parse_query", "parse_subgoal", "generate_goal", "parse_rule", "parse_arguments", "make_logic_var"];

/// Ok(true) = a value, Ok(false) = an error message, Err = panic (site, text).
pub fn call_entry(entry: &str, s: &str) -> Result<bool, (String, String)> {
    let r = catch_unwind(AssertUnwindSafe(|| match entry {
        "parse_term" => suiron::parse_term(s).is_ok(),
        "parse_linked_list" => suiron::parse_linked_list(s).is_ok(),
        "parse_complex" => suiron::parse_complex(s).is_ok(),
        "parse_function" => suiron::parse_function(s).is_ok(),
        "parse_query" => suiron::parse_query(s).is_ok(),
        "parse_subgoal" => suiron::parse_subgoal(s).is_ok(),
        "generate_goal" => suiron::generate_goal(s).is_ok(),
        "parse_rule" => suiron::parse_rule(s).is_ok(),
        "parse_arguments" => suiron::parse_arguments(s).is_ok(),
        "make_logic_var" => suiron::make_logic_var(s.to_string()).is_ok(),
        _ => false,
    }));
    match r {
        Ok(b) => Ok(b),
        Err(p) => Err((last_site(), panic_text(p))),
    }
}

pub fn corpus() -> Vec<String> {
    let mut c: Vec<String> = vec![
        "male(Harold II).",
        "father($X, $Y) :- parent($X, $Y), male($X).",
        "qsort([$X | $L], $R, $R0) :- partition($L, $X, $L1, $L2), qsort($L2, $R1, $R0), qsort($L1, $R, [$X | $R1]).",
        "partition([$X | $L], $Y, [$X | $L1], $L2) :- $X <= $Y, !, partition($L, $Y, $L1, $L2).",
        "partition([], $_, [], []).",
        "m :- time(qsort).",
        "qsort :- data($List), qsort($List, $Out, []), nl, print_list($Out), nl, print(Finished), nl.",
        "data([27,74,17]).",
        "voter($P) :- $P = person($_, $Age), $Age >= 18.",
        "calc($X, $Y, $Out) :- $A = $X + $Y, $B = $A - 6, $Out = $B * 3.4.",
        "t($X) :- a($X), (b($X); c($X)), not(d($X)).",
        "w($X) :- $X = \"quoted, text\", print(%s\\, %s, $X, [a, b | $T]).",
        "j($O) :- $O = join(hello, \\,, world, !).",
        "f($X) :- functor($X, noun*, 2), include(f($_), [f(1), g(2)], $L), count($L, $N), append($L, [x], $M).",
        "loves($Who, $Whom)",
        "[a, b, c | $T]",
        "[[], [a], f(x)]",
        "add(1, 2.5, $X)",
        "$X == 1",
        "$_",
        "-3",
        "+7.25",
        "\"a b\"",
        "p(\\,)",
    ]
    .into_iter()
    .map(|s| s.to_string())
    .collect();
    c.sort();
    c.dedup();
    c
}

/// Texts that are parametric in one size: nesting depth, number of items, length of an atom / number.
pub fn scale_inputs(thorough: bool) -> Vec<String> {
    let mut sizes: Vec<usize> = vec![4, 5, 7, 8, 9, 15, 16, 17, 20, 21, 31, 32, 33, 40, 41, 63, 64, 65, 100, 101, 127, 128, 129];
    if thorough {
        sizes.extend([255, 256, 257, 300, 511, 512, 513, 1000]);
    }
    let mut out = vec![];
    for &n in &sizes {
        let rep = |s: &str| s.repeat(n);
        // nesting
        out.push(format!("p({}a{})", rep("f("), rep(")")));
        out.push(format!("p({}a{})", rep("["), rep("]")));
        out.push(format!("{}a{}", rep("["), rep("]")));
        out.push(format!("p({}a{})", "f([".repeat(n), "])".repeat(n)));
        out.push(format!("h($X) :- p({}$X{}).", rep("f("), rep(")")));
        out.push(format!("h($X) :- q({}$X{}), r.", rep("["), rep("]")));
        out.push(format!("h($X) :- {}p($X){}.", rep("("), rep(")")));
        out.push(format!("h($X) :- {}p($X){}.", rep("not("), rep(")")));
        out.push(format!("$X = {}1{}", rep("f("), rep(")")));
        // many items
        let items = |f: &dyn Fn(usize) -> String, sep: &str| (1..=n).map(f).collect::<Vec<_>>().join(sep);
        out.push(format!("p({})", items(&|i| i.to_string(), ", ")));
        out.push(format!("[{}]", items(&|i| format!("a{}", i), ", ")));
        out.push(format!("[{} | $T]", items(&|i| format!("$V{}", i), ", ")));
        out.push(format!("h($X) :- {}.", items(&|i| format!("p{}({})", i, i), ", ")));
        out.push(format!("h($X) :- {}.", items(&|i| format!("p{}($X)", i), "; ")));
        out.push(format!("h($X) :- {}.", items(&|i| format!("$V{} = {}", i, i), ", ")));
        out.push(format!("$X = add({})", items(&|i| i.to_string(), ", ")));
        out.push(format!("print({})", items(&|_| "%s".to_string(), "")));
        // long tokens
        out.push(format!("p({})", rep("a")));
        out.push(format!("p(${})", rep("X")));
        out.push(format!("p({})", rep("9")));
        out.push(format!("p(1.{})", rep("5")));
        out.push(format!("p(\"{}\")", rep("a b")));
        out.push(format!("{}(a)", rep("f")));
        out.push(format!("p({}a)", rep("\\,")));
        out.push(format!("p(a){}", rep(" ")));
        out.push(format!("h($X) :- p($X). % {}", rep("c")));
    }
    out
}

/// A few long valid texts for the single-edit sweep.
pub fn long_corpus() -> Vec<String> {
    vec![
        "p1(1), p2(2), p3(3), p4(4), p5(5), p6(6), p7(7), p8(8), p9(9)".to_string(),
        "h($X, $Y) :- p1($X, a), p2([$X, $Y | $T], f(g($X))), ($X = 1; $Y = 2), not(q($X)), $Z = $X + $Y, r($Z).".to_string(),
        "[alpha, beta, gamma(1, 2.5), [delta, [epsilon]], $Tail, \"two words\", f(g(h(i(j)))) | $Rest]".to_string(),
        "grandfather($X, $Y) :- father($X, $Z), father($Z, $Y); father($X, $Z), mother($Z, $Y).".to_string(),
    ]
}

fn edits1(s: &str, alphabet: &[&str]) -> Vec<String> {
    let cs: Vec<char> = s.chars().collect();
    let mut out = vec![];
    for i in 0..=cs.len() {
        if i < cs.len() {
            let mut d = cs.clone();
            d.remove(i);
            out.push(d.iter().collect());
        }
        for a in alphabet {
            let mut ins: Vec<char> = cs[..i].to_vec();
            ins.extend(a.chars());
            ins.extend(&cs[i..]);
            out.push(ins.iter().collect());
            if i < cs.len() {
                let mut rep: Vec<char> = cs[..i].to_vec();
                rep.extend(a.chars());
                rep.extend(&cs[i + 1..]);
                out.push(rep.iter().collect());
            }
        }
    }
    out
}

fn nth_string(mut k: u64, len: usize) -> String {
    let mut s = String::new();
    for _ in 0..len {
        s.push_str(SIGMA[(k % SIGMA.len() as u64) as usize]);
        k /= SIGMA.len() as u64;
    }
    s
}

/// C18 worker.  Cases are blocks of inputs (so that the shared-memory case id is
/// published once per block) but a crash is re-attributed exactly: the
/// progress word is updated before every single call.
pub fn worker_c18(tier: &str) {
    let mut w = Worker::from_env();
    install_site_hook();
    let max_len = if tier == "thorough" { 6 } else { 5 };
    let mut idx: u64 = 0;
    let mut seen_sites: HashMap<String, u32> = HashMap::new();
    let mut samples = 0;
    let edit_alpha: Vec<&str> = {
        let mut a: Vec<&str> = SIGMA.to_vec();
        a.extend(["%", "#", "日", "\t"]);
        a
    };

    let mut run_input = |w: &mut Worker, idx: u64, s: &str, origin: &str| {
        if let Some(d) = w.describe {
            if d == idx {
                w.emit(json!({"t":"describe","class":"input","witness":{"engine":"e4","kind":"c18","input": s, "origin": origin}}));
            }
            return;
        }
        w.begin(idx);
        w.count("inputs", 1);
        let mut accepted = false;
        for e in ENTRIES {
            w.count("calls", 1);
            match call_entry(e, s) {
                Ok(true) => {
                    accepted = true;
                    w.count(&format!("accepted.{}", e), 1);
                }
                Ok(false) => {}
                Err((site, text)) => {
                    w.count("panics", 1);
                    let class = format!("panic:{}", site);
                    let n = seen_sites.entry(class.clone()).or_insert(0);
                    *n += 1;
                    if *n <= 2 {
                        w.emit(json!({"t":"viol","prop":"C18","class":class,"kind":"panic","msg":format!("{}({:?}) panicked at {}: {}", e, s, site, text),"witness":{"engine":"e4","kind":"c18","entry":e,"input":s,"origin":origin}}));
                    } else {
                        w.emit(json!({"t":"viol","prop":"C18","class":class,"kind":"panic","msg":"(further occurrence)","witness":null}));
                    }
                }
            }
        }
        if accepted {
            w.count("inputs_accepted_by_some_parser", 1);
            w.distinct("accepted_inputs", s);
        }
        if samples < 2 && accepted && idx % 7 == 3 {
            samples += 1;
            w.emit(json!({"t":"sample","v":{"input": s, "origin": origin}}));
        }
    };

    // all strings up to max_len
    for len in 0..=max_len {
        let total = (SIGMA.len() as u64).pow(len as u32);
        for k in 0..total {
            let my = idx;
            idx += 1;
            if !w.mine(my) {
                continue;
            }
            let s = nth_string(k, len);
            run_input(&mut w, my, &s, "all-strings");
        }
    }
    // single edits of the corpus
    let corp = corpus();
    for c in &corp {
        let mut es = edits1(c, &edit_alpha);
        es.push(c.clone());
        for e in es {
            let my = idx;
            idx += 1;
            if !w.mine(my) {
                continue;
            }
            run_input(&mut w, my, &e, "corpus-edit-1");
        }
    }
    // scale: one size parameter at a time (nesting depth, number of items, length), at the sizes where a
    // width or capacity typically overflows; every text also with its last / first / middle character
    // removed and with an unbalanced bracket at the end
    for s in scale_inputs(tier == "thorough") {
        let cs: Vec<char> = s.chars().collect();
        let n = cs.len();
        let mut variants: Vec<String> = vec![s.clone()];
        if n > 2 {
            for cut in [0, n / 2, n - 2, n - 1] {
                let mut v = cs.clone();
                v.remove(cut);
                variants.push(v.iter().collect());
            }
            variants.push(format!("{})", s));
            variants.push(format!("{}]", s));
            variants.push(format!("{}, ", s));
            variants.push(format!("{}\\", s));
            variants.push(format!("{}\"", s));
        }
        for e in variants {
            let my = idx;
            idx += 1;
            if !w.mine(my) {
                continue;
            }
            run_input(&mut w, my, &e, "scale");
        }
    }
    // long valid texts: every single edit (a fault at every distance from either end)
    for c in long_corpus() {
        for e in edits1(&c, &["(", ")", "[", "]", ",", "\\", "\"", " ", "$", "|", ".", "=", "é"]) {
            let my = idx;
            idx += 1;
            if !w.mine(my) {
                continue;
            }
            run_input(&mut w, my, &e, "long-corpus-edit-1");
        }
    }
    // double edits at nearby positions (thorough)
    if tier == "thorough" {
        let small: Vec<&str> = vec!["(", ")", "[", "]", ",", "\\", "\"", " ", "$", "|", ".", "="];
        for c in &corp {
            let cs: Vec<char> = c.chars().collect();
            for i in 0..=cs.len() {
                for a in &small {
                    for dj in 0..=2usize {
                        for b in &small {
                            let my = idx;
                            idx += 1;
                            if !w.mine(my) {
                                continue;
                            }
                            let mut v: Vec<char> = cs[..i].to_vec();
                            v.extend(a.chars());
                            let j = (i + dj).min(cs.len());
                            v.extend(&cs[i..j]);
                            v.extend(b.chars());
                            v.extend(&cs[j..]);
                            let s: String = v.iter().collect();
                            run_input(&mut w, my, &s, "corpus-edit-2");
                        }
                    }
                }
            }
        }
    }
    w.done();
}

pub fn replay_c18(wit: &Value) -> bool {
    install_site_hook();
    let s = wit["input"].as_str().unwrap_or("");
    let mut ok = true;
    for round in 0..2 {
        for e in ENTRIES {
            match call_entry(e, s) {
                Ok(b) => println!("run {} {}({:?}) -> {}", round, e, s, if b { "value" } else { "error message" }),
                Err((site, text)) => {
                    println!("run {} {}({:?}) -> PANIC at {}: {}", round, e, s, site, text);
                    ok = false;
                }
            }
        }
    }
    ok
}

// ------------------------------------------------------------------ grammar

fn x() -> T {
    v("$X")
}

/// Terms of the canonical grammar, depth <= `d`.
pub fn grammar_terms(d: usize, big: bool) -> Vec<T> {
    // (`1e5` is an atom: Suiron's numbers have no exponent notation; `été`: a non-ASCII atom)
    let mut base = vec![atom("a"), atom("two words"), T::Int(1), T::Int(42), T::Float(1.5), x(), v("$Long_name"), T::Anon, atom("1e5"), atom("été")];
    if big {
        base.extend(vec![atom("B9"), T::Float(0.25), T::Int(0)]);
        // atoms that look like numbers to a general-purpose number parser; non-ASCII atoms
        base.extend(vec![atom("inf"), atom("NaN"), atom("Ωmega")]);
    }
    if d == 0 {
        return base;
    }
    let inner = grammar_terms(d - 1, false);
    let mut out = base.clone();
    out.push(list(vec![]));
    for t in &inner {
        out.push(cplx("f", vec![t.clone()]));
        out.push(list(vec![t.clone()]));
        out.push(list_t(vec![t.clone()], v("$T")));
    }
    // the pairs: a few constants and variables, and one term of each structured kind
    // (so that a list or complex term is also the *last* of several elements / arguments)
    let mut pick: Vec<T> = inner.iter().take(if big { 6 } else { 3 }).cloned().collect();
    pick.extend(vec![x(), list(vec![]), list(vec![atom("b")]), cplx("f", vec![atom("b")]), list(vec![atom("b"), atom("c")])]);
    for t in &pick {
        for u in &pick {
            out.push(cplx("g", vec![t.clone(), u.clone()]));
            out.push(list(vec![t.clone(), u.clone()]));
            out.push(list_t(vec![t.clone(), u.clone()], v("$T")));
        }
    }
    // same-kind and mixed nesting three levels deep with a sibling after the inner term
    if d >= 2 {
        let leafs = vec![atom("a"), cplx("h", vec![atom("a")]), list(vec![atom("a")])];
        for l1 in &leafs {
            for l2 in &leafs {
                let inner_c = cplx("g", vec![l1.clone(), l2.clone()]);
                let inner_l = list(vec![l1.clone(), l2.clone()]);
                for inn in [&inner_c, &inner_l] {
                    out.push(cplx("f", vec![inn.clone()]));
                    out.push(cplx("f", vec![inn.clone(), atom("z")]));
                    out.push(list(vec![inn.clone(), atom("z")]));
                    out.push(list_t(vec![inn.clone()], v("$T")));
                }
            }
        }
    }
    out.push(cplx("h3", vec![atom("a"), x(), T::Int(1)]));
    out.push(list(vec![atom("a"), atom("b"), atom("c")]));
    out.dedup();
    out
}

/// Goals of the canonical grammar (leaf goals).
pub fn grammar_leaf_goals(terms: &[T]) -> Vec<G> {
    let mut out = vec![G::Cut, G::Fail, G::Nl, call("go", vec![])];
    let few: Vec<T> = terms.iter().take(12).cloned().collect();
    for t in terms {
        out.push(call("p", vec![t.clone()]));
        out.push(G::Unify(x(), t.clone()));
        out.push(G::Print(vec![t.clone()]));
    }
    for t in &few {
        for u in &few {
            out.push(call("q", vec![t.clone(), u.clone()]));
            out.push(G::Unify(t.clone(), u.clone()));
        }
        for rel in Rel::ALL {
            out.push(G::Cmp(rel, x(), t.clone()));
        }
        for op in ["add", "subtract", "multiply", "divide"] {
            out.push(G::Unify(x(), func(op, vec![t.clone(), T::Int(2)])));
        }
        out.push(G::Unify(x(), func("join", vec![t.clone(), atom("b")])));
        out.push(G::Bip("append".into(), vec![t.clone(), list(vec![atom("b")]), x()]));
        out.push(G::Bip("count".into(), vec![t.clone(), x()]));
        out.push(G::Bip("include".into(), vec![t.clone(), list(vec![atom("a")]), x()]));
        out.push(G::Bip("exclude".into(), vec![t.clone(), list(vec![atom("a")]), x()]));
        out.push(G::Bip("functor".into(), vec![t.clone(), x(), v("$N")]));
        out.push(G::PrintList(vec![t.clone()]));
        out.push(G::Not(Box::new(call("p", vec![t.clone()]))));
    }
    out.push(G::Print(vec![atom("%s and %s"), x(), atom("b")]));
    out.push(G::Not(Box::new(G::Unify(x(), atom("a")))));
    out.push(G::Time(Box::new(call("p", vec![x()]))));
    out.push(G::Not(Box::new(G::Cmp(Rel::Lt, x(), T::Int(1)))));
    out
}

fn goal_eq(a: &Goal, b: &Goal) -> bool {
    a == b
}

/// The text the engine's Display gives for a value built from `t` (floats as
/// Display prints them).
fn display_text_t(t: &T) -> String {
    match t {
        T::Float(f) => format!("{}", f),
        T::Cplx(f, a) | T::Func(f, a) => format!("{}({})", f, a.iter().map(display_text_t).collect::<Vec<_>>().join(", ")),
        T::List(a, tl) => {
            let mut s = format!("[{}", a.iter().map(display_text_t).collect::<Vec<_>>().join(", "));
            if let Some(t) = tl {
                s.push_str(" | ");
                s.push_str(&display_text_t(t));
            }
            s.push(']');
            s
        }
        o => o.text(),
    }
}

pub struct Emit<'a> {
    pub w: &'a mut Worker,
    pub emitted: HashMap<String, u32>,
}

impl<'a> Emit<'a> {
    pub fn viol(&mut self, prop: &str, class: String, msg: String, wit: Value) {
        self.w.count(&format!("viol.{}", prop), 1);
        let n = self.emitted.entry(format!("{}|{}", prop, class)).or_insert(0);
        *n += 1;
        if *n <= 2 {
            self.w.emit(json!({"t":"viol","prop":prop,"class":class,"kind":class.split(':').next().unwrap_or(""),"msg":msg,"witness":wit}));
        } else {
            self.w.emit(json!({"t":"viol","prop":prop,"class":class,"kind":"","msg":"(further occurrence)","witness":null}));
        }
    }
}

fn term_kind(t: &T) -> &'static str {
    match t {
        T::Var(..) => "var",
        T::Anon => "anon",
        T::Atom(s) if s.contains(' ') => "atom-with-space",
        T::Atom(_) => "atom",
        T::Int(_) => "int",
        T::Float(_) => "float",
        T::Cplx(_, a) if a.is_empty() => "complex0",
        T::Cplx(..) => "complex",
        T::List(e, None) if e.is_empty() => "list[]",
        T::List(_, None) => "list",
        T::List(_, Some(_)) => "list|tail",
        T::Func(..) => "function",
    }
}

fn goal_kind(g: &G) -> String {
    match g {
        G::Call(T::Cplx(_, a)) if a.is_empty() => "call0".into(),
        G::Call(_) => "call".into(),
        G::Unify(_, T::Func(n, _)) => format!("unify-{}", n),
        G::Unify(..) => "unify".into(),
        G::Cmp(r, ..) => format!("cmp-{}", r.name()),
        G::And(_) => "and".into(),
        G::Or(_) => "or".into(),
        G::Not(_) => "not".into(),
        G::Time(_) => "time".into(),
        G::Cut => "cut".into(),
        G::Fail => "fail".into(),
        G::Nl => "nl".into(),
        G::Print(_) => "print".into(),
        G::PrintList(_) => "print_list".into(),
        G::Bip(n, _) => n.clone(),
    }
}

/// C19 for one term: parse(text) == built value, Display == text, parse(Display) == value.
fn c19_term(e: &mut Emit, t: &T) {
    let text = t.text();
    let built = to_suiron(t);
    let wit = json!({"engine":"e4","kind":"c19-term","term": t.to_json(), "text": text});
    e.w.count("c19.terms", 1);
    match catch_unwind(AssertUnwindSafe(|| suiron::parse_term(&text))) {
        Err(p) => e.viol("C19", format!("parse-panic:term:{}", term_kind(t)), format!("parse_term({:?}) panicked: {}", text, panic_text(p)), wit.clone()),
        Ok(Err(m)) => e.viol("C19", format!("rejected:term:{}", term_kind(t)), format!("parse_term({:?}) rejected canonical text: {}", text, m), wit.clone()),
        Ok(Ok(u)) => {
            if u != built {
                e.viol("C19", format!("parse-differs:term:{}", term_kind(t)), format!("parse_term({:?}) = {} , expected {}", text, shape(&u), shape(&built)), wit.clone());
            }
            let shown = format!("{}", u);
            if shown != display_text_t(t) {
                e.viol("C19", format!("display-differs:term:{}", term_kind(t)), format!("parsed {:?} prints as {:?}", text, shown), wit.clone());
            }
            match catch_unwind(AssertUnwindSafe(|| suiron::parse_term(&shown))) {
                Ok(Ok(u2)) if u2 == u => {}
                Ok(Ok(u2)) => {
                    // a float without fractional part prints as an integer: outside C19
                    if !has_integral_float(t) {
                        e.viol("C19", format!("reparse-differs:term:{}", term_kind(t)), format!("printed text {:?} parses to {} , value was {}", shown, shape(&u2), shape(&u)), wit.clone())
                    }
                }
                Ok(Err(m)) => e.viol("C19", format!("reparse-rejected:term:{}", term_kind(t)), format!("printed text {:?} is rejected: {}", shown, m), wit.clone()),
                Err(p) => e.viol("C19", format!("reparse-panic:term:{}", term_kind(t)), format!("parse_term({:?}) panicked: {}", shown, panic_text(p)), wit.clone()),
            }
        }
    }
}

fn has_integral_float(t: &T) -> bool {
    match t {
        T::Float(f) => f.fract() == 0.0,
        T::Cplx(_, a) | T::Func(_, a) => a.iter().any(has_integral_float),
        T::List(a, tl) => a.iter().any(has_integral_float) || tl.as_ref().map_or(false, |t| has_integral_float(t)),
        _ => false,
    }
}

/// C19 for a goal (as a rule body, through generate_goal) and for the rule.
fn c19_goal(e: &mut Emit, g: &G, also_infix: bool) {
    let text = g.text();
    let built = to_goal(g);
    let kind = goal_kind(g);
    let wit = json!({"engine":"e4","kind":"c19-goal","goal": g.to_json(), "text": text});
    e.w.count("c19.goals", 1);
    let parse = |s: &str| catch_unwind(AssertUnwindSafe(|| suiron::generate_goal(s)));
    match parse(&text) {
        Err(p) => e.viol("C19", format!("parse-panic:goal:{}", kind), format!("generate_goal({:?}) panicked: {}", text, panic_text(p)), wit.clone()),
        Ok(Err(m)) => e.viol("C19", format!("rejected:goal:{}", kind), format!("generate_goal({:?}) rejected canonical text: {}", text, m), wit.clone()),
        Ok(Ok(u)) => {
            if !goal_eq(&u, &built) {
                e.viol("C19", format!("parse-differs:goal:{}", kind), format!("generate_goal({:?}) = {:?} , expected {:?}", text, u, built), wit.clone());
            }
            let shown = format!("{}", u);
            let expect_shown = format!("{}", built);
            if shown != expect_shown || (shown != text && !text_has_float_int(g)) {
                e.viol("C19", format!("display-differs:goal:{}", kind), format!("parsed {:?} prints as {:?}", text, shown), wit.clone());
            }
            match parse(&shown) {
                Ok(Ok(u2)) if goal_eq(&u2, &u) => {}
                Ok(Ok(u2)) => e.viol("C19", format!("reparse-differs:goal:{}", kind), format!("printed text {:?} parses to {:?}", shown, u2), wit.clone()),
                Ok(Err(m)) => e.viol("C19", format!("reparse-rejected:goal:{}", kind), format!("printed text {:?} is rejected: {}", shown, m), wit.clone()),
                Err(p) => e.viol("C19", format!("reparse-panic:goal:{}", kind), format!("generate_goal({:?}) panicked: {}", shown, panic_text(p)), wit.clone()),
            }
        }
    }
    // a goal without arguments may also be written as a bare name (`m :- time(qsort).`)
    if let G::Call(T::Cplx(f, a)) = g {
        if a.is_empty() {
            e.w.count("c19.bare_name_goals", 1);
            match parse(f) {
                Ok(Ok(u)) if goal_eq(&u, &built) => {}
                Ok(Ok(u)) => e.viol("C19", format!("bare-differs:goal:{}", kind), format!("bare goal {:?} parses to {:?}, expected {:?}", f, u, built), wit.clone()),
                Ok(Err(m)) => e.viol("C19", format!("bare-rejected:goal:{}", kind), format!("bare goal {:?} is rejected: {}", f, m), wit.clone()),
                Err(p) => e.viol("C19", format!("bare-panic:goal:{}", kind), format!("generate_goal({:?}) panicked: {}", f, panic_text(p)), wit.clone()),
            }
            for rule_text in [format!("{}.", f), format!("h($X) :- {}.", f), format!("{} :- p($X).", f)] {
                let canon = rule_text.replace(&format!("{}.", f), &format!("{}().", f)).replace(&format!("{} :-", f), &format!("{}() :-", f));
                let r1 = catch_unwind(AssertUnwindSafe(|| suiron::parse_rule(&rule_text)));
                let r2 = catch_unwind(AssertUnwindSafe(|| suiron::parse_rule(&canon)));
                let same = match (&r1, &r2) {
                    (Ok(Ok(a)), Ok(Ok(b))) => a.head == b.head && a.body == b.body,
                    _ => false,
                };
                if !same {
                    e.viol("C19", "bare-rule-differs:fact0-or-call0".to_string(), format!("{:?} and {:?} should be the same rule: {:?} vs {:?}", rule_text, canon, r1.map(|r| r.map(|x| x.to_string())), r2.map(|r| r.map(|x| x.to_string()))), wit.clone());
                }
            }
        }
    }
    if also_infix {
        let it = infix_text(g);
        if it != text {
            e.w.count("c19.infix_goals", 1);
            match parse(&it) {
                Ok(Ok(u)) if goal_eq(&u, &built) => {}
                Ok(Ok(u)) => e.viol("C19", format!("infix-differs:goal:{}", kind), format!("infix text {:?} parses to {:?}, expected {:?}", it, u, built), wit.clone()),
                Ok(Err(m)) => e.viol("C19", format!("infix-rejected:goal:{}", kind), format!("infix text {:?} is rejected: {}", it, m), wit.clone()),
                Err(p) => e.viol("C19", format!("infix-panic:goal:{}", kind), format!("generate_goal({:?}) panicked: {}", it, panic_text(p)), wit.clone()),
            }
        }
    }
}

fn text_has_float_int(g: &G) -> bool {
    let mut found = false;
    g.map_terms(&mut |t| {
        if has_integral_float(t) {
            found = true;
        }
        t.clone()
    });
    found
}

fn c19_rule(e: &mut Emit, c: &Clause) {
    let text = c.text();
    let built = to_rule(c);
    let kind = match &c.body {
        None => {
            if matches!(&c.head, T::Cplx(_, a) if a.is_empty()) {
                "fact0".to_string()
            } else {
                "fact".to_string()
            }
        }
        Some(b) => format!("rule-{}", goal_kind(b)),
    };
    let wit = json!({"engine":"e4","kind":"c19-rule","clause": c.to_json(), "text": text});
    e.w.count("c19.rules", 1);
    let parse = |s: &str| catch_unwind(AssertUnwindSafe(|| suiron::parse_rule(s)));
    match parse(&text) {
        Err(p) => e.viol("C19", format!("parse-panic:{}", kind), format!("parse_rule({:?}) panicked: {}", text, panic_text(p)), wit.clone()),
        Ok(Err(m)) => e.viol("C19", format!("rejected:{}", kind), format!("parse_rule({:?}) rejected canonical text: {}", text, m), wit.clone()),
        Ok(Ok(r)) => {
            if r.head != built.head || r.body != built.body {
                e.viol("C19", format!("parse-differs:{}", kind), format!("parse_rule({:?}) = {} , expected {}", text, r, built), wit.clone());
            }
            let shown = format!("{}", r);
            if shown != format!("{}", built) {
                e.viol("C19", format!("display-differs:{}", kind), format!("parsed {:?} prints as {:?}", text, shown), wit.clone());
            }
            match parse(&shown) {
                Ok(Ok(r2)) if r2.head == r.head && r2.body == r.body => {}
                Ok(Ok(r2)) => e.viol("C19", format!("reparse-differs:{}", kind), format!("printed text {:?} parses to {}", shown, r2), wit.clone()),
                Ok(Err(m)) => e.viol("C19", format!("reparse-rejected:{}", kind), format!("printed text {:?} is rejected: {}", shown, m), wit.clone()),
                Err(p) => e.viol("C19", format!("reparse-panic:{}", kind), format!("parse_rule({:?}) panicked: {}", shown, panic_text(p)), wit.clone()),
            }
        }
    }
}

/// Rules of the canonical grammar (used by C19 and C21).
pub fn grammar_rules(level: u8) -> Vec<Clause> {
    let terms = grammar_terms(1, false);
    let leaves = grammar_leaf_goals(&terms);
    let mut out = vec![];
    let heads = vec![
        cplx("h", vec![x()]),
        cplx("h", vec![x(), list_t(vec![v("$H")], v("$T"))]),
        cplx("go", vec![]),
        cplx("two words", vec![atom("a b"), T::Int(1)]),
        // non-ASCII letters in the head of a rule
        cplx("αβγδ", vec![atom("déjà"), x()]),
        cplx("déjeuner", vec![]),
    ];
    // facts
    for t in grammar_terms(1, false) {
        out.push(Clause { head: cplx("fact", vec![t.clone()]), body: None });
    }
    out.push(Clause { head: cplx("go", vec![]), body: None });
    out.push(Clause { head: cplx("k", vec![atom("a"), T::Int(1), T::Float(1.5), x(), T::Anon]), body: None });
    // single-goal bodies
    for g in &leaves {
        out.push(Clause { head: heads[0].clone(), body: Some(g.clone()) });
    }
    // and / or of 2-3 goals over a smaller leaf set
    let step = if level >= 2 { 7 } else { 23 };
    let few: Vec<G> = leaves.iter().step_by(step).cloned().collect();
    for h in &heads {
        for a in &few {
            for b in &few {
                out.push(Clause { head: h.clone(), body: Some(G::And(vec![a.clone(), b.clone()])) });
                out.push(Clause { head: h.clone(), body: Some(G::Or(vec![a.clone(), b.clone()])) });
            }
        }
    }
    let fewer: Vec<G> = few.iter().step_by(3).cloned().collect();
    for a in &fewer {
        for b in &fewer {
            for c in &fewer {
                out.push(Clause { head: heads[0].clone(), body: Some(G::And(vec![a.clone(), b.clone(), c.clone()])) });
                out.push(Clause { head: heads[0].clone(), body: Some(G::Or(vec![a.clone(), G::And(vec![b.clone(), c.clone()])])) });
                out.push(Clause { head: heads[0].clone(), body: Some(G::Or(vec![G::And(vec![a.clone(), b.clone()]), c.clone()])) });
            }
        }
    }
    out
}

pub fn worker_c19(tier: &str) {
    let mut w = Worker::from_env();
    install_site_hook();
    let lv: u8 = if tier == "thorough" { 2 } else { 1 };
    let terms = grammar_terms(if lv >= 2 { 3 } else { 2 }, lv >= 2);
    let leaf_terms = grammar_terms(1, lv >= 2);
    let goals = grammar_leaf_goals(&leaf_terms);
    let rules = grammar_rules(lv);
    // scale: one size parameter at a time (depth, number of arguments / elements / goals / clauses' variables)
    let (mut terms, mut goals, mut rules) = (terms, goals, rules);
    let (st, sg, sr) = scale_syntax(lv >= 2);
    // a complex term (or built-in goal) whose text is longer than 1000 characters is rejected by
    // design ("String is too long", s_complex.rs): such items are outside the documented syntax
    let before = st.len() + sg.len() + sr.len();
    let st: Vec<T> = st.into_iter().filter(|t| !term_too_long(t)).collect();
    let sg: Vec<G> = sg.into_iter().filter(|g| !goal_too_long(g)).collect();
    let sr: Vec<Clause> = sr.into_iter().filter(|c| !term_too_long(&c.head) && !c.body.as_ref().map_or(false, goal_too_long)).collect();
    let beyond_limit = before - (st.len() + sg.len() + sr.len());
    terms.extend(st);
    goals.extend(sg);
    rules.extend(sr);
    let mut idx = 0u64;
    let describe = w.describe;
    let mut e = Emit { w: &mut w, emitted: HashMap::new() };
    let mut n_s = 0;
    if e.w.shard == 0 && describe.is_none() {
        e.w.count("c19.scale_items_beyond_the_documented_1000_character_limit_left_out", beyond_limit as u64);
    }
    for t in &terms {
        let my = idx;
        idx += 1;
        if describe.is_some() {
            if describe == Some(my) {
                e.w.emit(json!({"t":"describe","class":format!("term:{}", term_kind(t)),"witness":{"engine":"e4","kind":"c19-term","term":t.to_json(),"text":t.text()}}));
                return;
            }
            continue;
        }
        if !e.w.mine(my) {
            continue;
        }
        e.w.begin(my);
        c19_term(&mut e, t);
        e.w.distinct("outcomes", &("term", term_kind(t)));
        if n_s < 1 {
            n_s += 1;
            e.w.emit(json!({"t":"sample","v":{"term": t.text()}}));
        }
    }
    for g in &goals {
        let my = idx;
        idx += 1;
        if describe.is_some() {
            if describe == Some(my) {
                e.w.emit(json!({"t":"describe","class":format!("goal:{}", goal_kind(g)),"witness":{"engine":"e4","kind":"c19-goal","goal":g.to_json(),"text":g.text()}}));
                return;
            }
            continue;
        }
        if !e.w.mine(my) {
            continue;
        }
        e.w.begin(my);
        c19_goal(&mut e, g, true);
        e.w.distinct("outcomes", &("goal", goal_kind(g)));
    }
    for c in &rules {
        let my = idx;
        idx += 1;
        if describe.is_some() {
            if describe == Some(my) {
                e.w.emit(json!({"t":"describe","class":"rule","witness":{"engine":"e4","kind":"c19-rule","clause":c.to_json(),"text":c.text()}}));
                return;
            }
            continue;
        }
        if !e.w.mine(my) {
            continue;
        }
        e.w.begin(my);
        c19_rule(&mut e, c);
        if n_s < 2 {
            n_s += 1;
            e.w.emit(json!({"t":"sample","v":{"rule": c.text()}}));
        }
    }
    // a long parsing history in one thread: the parsers keep no state, so after hundreds of parses of
    // every kind (infix arithmetic and comparisons included) the same texts must still give the same values
    if describe.is_none() && e.w.mine(idx) {
        e.w.begin(idx);
        let probes: Vec<T> = leaf_terms.iter().take(24).cloned().collect();
        for round in 0..(if lv >= 2 { 2000 } else { 400 }) {
            for txt in ["$X + 1", "$Y = $X * 2.5", "$X <= 3", "f($X - 1, [a | $T])", "h($X) :- $Y = $X / 2, $Y >= 1.", "[1, 2 | $T]", "p(f(g(a)), \"q r\")"] {
                let _ = catch_unwind(AssertUnwindSafe(|| suiron::parse_term(txt)));
                let _ = catch_unwind(AssertUnwindSafe(|| suiron::parse_subgoal(txt)));
                let _ = catch_unwind(AssertUnwindSafe(|| suiron::generate_goal(txt)));
                let _ = catch_unwind(AssertUnwindSafe(|| suiron::parse_rule(txt)));
            }
            if round % 50 == 49 {
                for t in &probes {
                    c19_term(&mut e, t);
                }
                e.w.count("c19.history_probe_rounds", 1);
                e.w.beat();
            }
        }
    }
    w.done();
}

/// Does the term contain a complex term or function whose canonical text exceeds the parser's
/// documented limit of 1000 characters?
fn term_too_long(t: &T) -> bool {
    match t {
        T::Cplx(_, args) | T::Func(_, args) => t.text().chars().count() > 1000 || args.iter().any(term_too_long),
        T::List(es, tail) => es.iter().any(term_too_long) || tail.as_ref().map_or(false, |x| term_too_long(x)),
        _ => false,
    }
}

fn goal_too_long(g: &G) -> bool {
    match g {
        G::Call(t) => term_too_long(t),
        G::Unify(a, b) | G::Cmp(_, a, b) => term_too_long(a) || term_too_long(b),
        G::And(gs) | G::Or(gs) => gs.iter().any(goal_too_long),
        G::Not(x) | G::Time(x) => goal_too_long(x),
        G::Print(a) | G::PrintList(a) | G::Bip(_, a) => g.text().chars().count() > 1000 || a.iter().any(term_too_long),
        _ => false,
    }
}

/// Scale inputs for C19: (terms, goals, rules), each parametric in one size.
fn scale_syntax(thorough: bool) -> (Vec<T>, Vec<G>, Vec<Clause>) {
    let mut sizes: Vec<usize> = vec![3, 4, 5, 7, 8, 9, 15, 16, 17, 20, 21, 31, 32, 33, 40, 41, 63, 64, 65, 100, 128, 129, 160];
    if thorough {
        sizes.extend([101, 127, 255, 256, 257]);
    }
    let (mut ts, mut gs, mut rs) = (vec![], vec![], vec![]);
    for &n in &sizes {
        let deep = (0..n).fold(atom("a"), |t, _| cplx("f", vec![t]));
        let deepv = (0..n).fold(x(), |t, _| cplx("g", vec![t, atom("b")]));
        let deepl = (0..n).fold(atom("a"), |t, _| list(vec![t]));
        let deepl2 = (0..n).fold(x(), |t, _| list(vec![atom("b"), t]));
        let mixed = (0..n).fold(atom("a"), |t, i| if i % 2 == 0 { cplx("f", vec![t]) } else { list(vec![t, atom("c")]) });
        let ints: Vec<T> = (1..=n as i64).map(T::Int).collect();
        let vars: Vec<T> = (1..=n).map(|i| v(&format!("$V{}", i))).collect();
        let long_atom = atom("ab ".repeat(n).trim());
        // non-ASCII atoms: the text is longer in bytes than in characters (6 characters, 8 bytes an item)
        let wide: Vec<T> = (0..n).map(|i| atom(&format!("\u{e9}\u{fc}{}", 10 + i % 90))).collect();
        ts.push(cplx("k", wide.clone()));
        ts.push(list(wide.clone()));
        gs.push(G::Unify(x(), cplx("k", wide.clone())));
        gs.push(call("p", wide.clone()));
        rs.push(Clause { head: cplx("w", wide.clone()), body: None });
        rs.push(Clause { head: cplx("h", vec![x()]), body: Some(G::And(vec![G::Unify(x(), cplx("k", wide.clone())), call("p", vec![list(wide)])])) });
        ts.extend(vec![deep.clone(), deepv.clone(), deepl.clone(), deepl2.clone(), mixed.clone(), list(ints.clone()), list_t(vars.clone(), v("$T")), cplx("k", ints.clone()), cplx("k", vars.clone()), long_atom.clone(), v(&format!("${}", "X".repeat(n)))]);
        // goals
        for t in [deep.clone(), deepl.clone(), mixed.clone(), cplx("k", vars.clone()), list(ints.clone())] {
            gs.push(call("p", vec![t.clone()]));
            gs.push(G::Unify(x(), t.clone()));
            gs.push(G::Not(Box::new(call("p", vec![t.clone()]))));
            gs.push(G::Print(vec![t]));
        }
        gs.push(G::Unify(x(), func("add", ints.clone())));
        gs.push(G::Bip("append".into(), { let mut a = ints.clone(); a.push(x()); a }));
        gs.push(G::Print({ let mut a = vec![atom("%s ".repeat(n).trim())]; a.extend(ints.clone()); a }));
        // rules: n goals in a conjunction / disjunction, n variables, deep terms in head and body
        let conj: Vec<G> = (0..n).map(|i| call(&format!("q{}", i % 5), vec![v(&format!("$V{}", i % 7)), T::Int(i as i64)])).collect();
        let disj: Vec<G> = (0..n).map(|i| G::Unify(x(), T::Int(i as i64))).collect();
        rs.push(Clause { head: cplx("h", vec![x()]), body: Some(G::And(conj.clone())) });
        rs.push(Clause { head: cplx("h", vec![x()]), body: Some(G::Or(disj)) });
        rs.push(Clause { head: cplx("h", vars.clone()), body: Some(G::And(vec![call("p", vars.clone()), G::Unify(vars[0].clone(), vars[n - 1].clone())])) });
        rs.push(Clause { head: cplx("h", vec![deep.clone(), deepl.clone()]), body: Some(G::And(vec![call("p", vec![mixed.clone()]), G::Not(Box::new(call("q", vec![deepv.clone()])))])) });
        rs.push(Clause { head: cplx("fact", vec![deep, deepl, list(ints)]), body: None });
    }
    (ts, gs, rs)
}

// ------------------------------------------------------------------ C20

#[allow(dead_code)]
fn strip_ids_unused() {}
fn strip_ids(u: &Unifiable) -> Unifiable {
    match u {
        Unifiable::LogicVar { name, .. } => Unifiable::LogicVar { id: 0, name: name.clone() },
        Unifiable::SComplex(v) => Unifiable::SComplex(v.iter().map(strip_ids).collect()),
        Unifiable::SFunction { name, terms } => Unifiable::SFunction { name: name.clone(), terms: terms.iter().map(strip_ids).collect() },
        Unifiable::SLinkedList { term, next, count, tail_var } => Unifiable::SLinkedList { term: Box::new(strip_ids(term)), next: Box::new(strip_ids(next)), count: *count, tail_var: *tail_var },
        o => o.clone(),
    }
}

/// The term found at each context, or a description of why not.
fn parse_in_contexts(text: &str) -> Vec<(&'static str, Result<Unifiable, String>)> {
    let mut out: Vec<(&'static str, Result<Unifiable, String>)> = vec![];
    let guard = |f: &dyn Fn() -> Result<Unifiable, String>| -> Result<Unifiable, String> {
        match catch_unwind(AssertUnwindSafe(|| f())) {
            Ok(r) => r,
            Err(p) => Err(format!("PANIC {}", panic_text(p))),
        }
    };
    out.push(("alone", guard(&|| suiron::parse_term(text))));
    out.push((
        "complex-argument",
        guard(&|| match suiron::parse_complex(&format!("ctx({}, zz)", text))? {
            Unifiable::SComplex(v) if v.len() == 3 => Ok(v[1].clone()),
            o => Err(format!("unexpected shape {}", o)),
        }),
    ));
    out.push((
        "complex-last-argument",
        guard(&|| match suiron::parse_complex(&format!("ctx(zz, {})", text))? {
            Unifiable::SComplex(v) if v.len() == 3 => Ok(v[2].clone()),
            o => Err(format!("unexpected shape {}", o)),
        }),
    ));
    out.push((
        "builtin-argument",
        guard(&|| match suiron::parse_subgoal(&format!("print({}, zz)", text))? {
            Goal::BuiltInGoal(b) => match b.terms {
                Some(ts) if ts.len() == 2 => Ok(ts[0].clone()),
                _ => Err("unexpected arguments".into()),
            },
            o => Err(format!("unexpected goal {}", o)),
        }),
    ));
    out.push((
        "list-element",
        guard(&|| match suiron::parse_linked_list(&format!("[{}, zz]", text))? {
            Unifiable::SLinkedList { term, .. } => Ok((*term).clone()),
            o => Err(format!("unexpected shape {}", o)),
        }),
    ));
    out.push((
        "list-last-element",
        guard(&|| match suiron::parse_linked_list(&format!("[zz, {}]", text))? {
            Unifiable::SLinkedList { next, .. } => match &*next {
                Unifiable::SLinkedList { term, .. } => Ok((**term).clone()),
                o => Err(format!("unexpected shape {}", o)),
            },
            o => Err(format!("unexpected shape {}", o)),
        }),
    ));
    out.push((
        "infix-left",
        guard(&|| match suiron::parse_subgoal(&format!("{} = zz", text))? {
            Goal::BuiltInGoal(b) if b.functor == "unify" => Ok(b.terms.unwrap()[0].clone()),
            o => Err(format!("unexpected goal {}", o)),
        }),
    ));
    out.push((
        "infix-right",
        guard(&|| match suiron::parse_subgoal(&format!("zz = {}", text))? {
            Goal::BuiltInGoal(b) if b.functor == "unify" => Ok(b.terms.unwrap()[1].clone()),
            o => Err(format!("unexpected goal {}", o)),
        }),
    ));
    out.push((
        "query-argument",
        guard(&|| match suiron::parse_query(&format!("ctx({}, zz)", text))? {
            Goal::ComplexGoal(Unifiable::SComplex(v)) if v.len() == 3 => Ok(strip_ids(&v[1])),
            o => Err(format!("unexpected goal {}", o)),
        }),
    ));
    out
}

pub fn c20_texts(big: bool) -> Vec<String> {
    let mut v: Vec<String> = grammar_terms(if big { 2 } else { 1 }, big).iter().map(|t| t.text()).collect();
    for s in ["-3", "+7", "-2.5", "+0.5", "\\,", ".", "?", "!", "-", "--", "3.", ".5", "1.2.3", "$", "$1", "$x", "_", "a-b", "a_b", "007", "1e5", "-a", "f()", "add(1, 2)", "join(a, b)", "1 + 2", "$X * 3", "\"quoted text\"", "\"a, b\""] {
        v.push(s.to_string());
    }
    // punctuation and quoted atoms one level down: in a context they sit at depth two
    for s in ["g(\\,)", "[a, \\,]", "g(\\|)", "g(a, \\,, b)", "[\\,, a]", "name(\"John Smith\")", "[\"John Smith\", b]", "f(\"a, b\", c)", "[f(\"x y\")]", "g([\"p, q\"], z)", "f(g(h(a), b))", "f(g(h(a), b), c)", "[[a, [b]], c]", "f([g(a), b], [c])", "Ωmega", "f(Ω)", "f(Ω, x)", "g(x, Ωmega)", "[été, b]", "inf", "NaN", "2E3"] {
        v.push(s.to_string());
    }
    // numbers with more digits than one machine width holds exactly
    for t in ["3.141592653589793238", "0.1234567890123456789", "2.7182818284590452353602874", "9007199254740993", "9007199254740992.5", "4294967296", "2147483648", "123456789012345678", "0.30000000000000004", "1.7976931348623157", "18446744073709551616", "9223372036854775807", "9223372036854775808"] {
        v.push(t.to_string());
    }
    // scale: the same term at nesting depth / item count / token length n, in every context
    for n in [4usize, 5, 8, 9, 16, 17, 32, 33, 40, 41, 64, 65] {
        let items = |f: &dyn Fn(usize) -> String| (1..=n).map(f).collect::<Vec<_>>().join(", ");
        v.push(format!("{}a{}", "f(".repeat(n), ")".repeat(n)));
        v.push(format!("{}a{}", "[".repeat(n), "]".repeat(n)));
        v.push(format!("k({})", items(&|i| i.to_string())));
        v.push(format!("[{}]", items(&|i| format!("a{}", i))));
        v.push(format!("[{} | $T]", items(&|i| format!("$V{}", i))));
        v.push("ab".repeat(n));
        v.push(format!("${}", "X".repeat(n)));
        v.push("7".repeat(n.min(18)));
        v.push(format!("1.{}", "5".repeat(n.min(15))));
        v.push(format!("\"{}\"", "a b ".repeat(n).trim()));
        v.push(format!("add({})", items(&|i| i.to_string())));
    }
    v.dedup();
    v
}

pub fn worker_c20(tier: &str) {
    let mut w = Worker::from_env();
    install_site_hook();
    let texts = c20_texts(tier == "thorough");
    let describe = w.describe;
    let mut e = Emit { w: &mut w, emitted: HashMap::new() };
    let mut n_s = 0;
    for (i, text) in texts.iter().enumerate() {
        let my = i as u64;
        if describe.is_some() {
            if describe == Some(my) {
                e.w.emit(json!({"t":"describe","class":"term-text","witness":{"engine":"e4","kind":"c20","text":text}}));
                return;
            }
            continue;
        }
        if !e.w.mine(my) {
            continue;
        }
        e.w.begin(my);
        e.w.count("c20.texts", 1);
        let res = parse_in_contexts(text);
        e.w.count("c20.parses", res.len() as u64);
        let (_, base) = &res[0];
        let class_of = |u: &Result<Unifiable, String>| -> String {
            match u {
                Ok(u) => match u {
                    Unifiable::Atom(_) => "atom".into(),
                    Unifiable::SInteger(_) => "integer".into(),
                    Unifiable::SFloat(_) => "float".into(),
                    Unifiable::LogicVar { .. } => "variable".into(),
                    Unifiable::Anonymous => "anon".into(),
                    Unifiable::SComplex(_) => "complex".into(),
                    Unifiable::SLinkedList { .. } => "list".into(),
                    Unifiable::SFunction { .. } => "function".into(),
                    Unifiable::Nil => "nil".into(),
                },
                Err(m) if m.starts_with("PANIC") => "panic".into(),
                Err(_) => "error".into(),
            }
        };
        e.w.distinct("outcomes", &(class_of(base), text.len().min(6)));
        for (ctx, r) in res.iter().skip(1) {
            let same = match (base, r) {
                (Ok(a), Ok(b)) => a == b,
                (Err(_), Err(_)) => true,
                _ => false,
            };
            if !same {
                let show = |u: &Result<Unifiable, String>| match u {
                    Ok(u) => format!("{} {}", class_of(&Ok(u.clone())), shape(u)),
                    Err(m) => format!("error ({})", m),
                };
                e.viol(
                    "C20",
                    format!("context-differs:{}:{}->{}", ctx, class_of(base), class_of(r)),
                    format!("{:?} alone is {} but as {} it is {}", text, show(base), ctx, show(r)),
                    json!({"engine":"e4","kind":"c20","text":text,"context":ctx}),
                );
            }
        }
        if n_s < 2 {
            n_s += 1;
            e.w.emit(json!({"t":"sample","v":{"text": text, "alone": format!("{:?}", base.as_ref().map(shape))}}));
        }
    }
    w.done();
}

pub fn replay_c20(wit: &Value) -> bool {
    let text = wit["text"].as_str().unwrap_or("");
    let mut ok = true;
    let res = parse_in_contexts(text);
    for (ctx, r) in &res {
        println!("{:24} {:?}", ctx, r.as_ref().map(shape));
    }
    for (_, r) in res.iter().skip(1) {
        let same = match (&res[0].1, r) {
            (Ok(a), Ok(b)) => a == b,
            (Err(_), Err(_)) => true,
            _ => false,
        };
        ok &= same;
    }
    ok
}

pub fn replay_c19(wit: &Value) -> bool {
    let mut w = Worker::from_env();
    let mut e = Emit { w: &mut w, emitted: HashMap::new() };
    match wit["kind"].as_str() {
        Some("c19-term") => c19_term(&mut e, &T::from_json(&wit["term"]).unwrap()),
        Some("c19-goal") => c19_goal(&mut e, &G::from_json(&wit["goal"]).unwrap(), true),
        Some("c19-rule") => c19_rule(&mut e, &Clause::from_json(&wit["clause"]).unwrap()),
        _ => {}
    }
    let n = e.emitted.len();
    eprintln!("text: {}", wit["text"]);
    eprintln!("{} violation class(es) on this case: {:?}", n, e.emitted.keys().collect::<Vec<_>>());
    n == 0
}
