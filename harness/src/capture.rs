//! Redirect the process's fd 1 to an anonymous file so that what the engine's
//! `print`, `print_list` and `nl` write can be read back per step.  The worker
//! talks to its supervisor on a duplicate of the original fd 1.

use std::fs::File;
use std::io::Write;
use std::os::unix::io::FromRawFd;

pub struct Capture {
    fd: i32,
    off: i64,
}

/// Returns (protocol stream = the original stdout, capture handle).
pub fn init() -> (File, Capture) {
    unsafe {
        let saved = libc::dup(1);
        assert!(saved >= 0, "dup failed");
        let name = b"vh-capture\0";
        let mfd = libc::memfd_create(name.as_ptr() as *const libc::c_char, 0);
        assert!(mfd >= 0, "memfd_create failed");
        assert!(libc::dup2(mfd, 1) >= 0, "dup2 failed");
        (File::from_raw_fd(saved), Capture { fd: mfd, off: 0 })
    }
}

impl Capture {
    /// Forget everything captured so far (used by a forked child, which shares
    /// the capture file with its parent and with earlier children).
    pub fn reset(&mut self) {
        let _ = std::io::stdout().flush();
        unsafe {
            libc::ftruncate(self.fd, 0);
            libc::lseek(1, 0, libc::SEEK_SET);
        }
        self.off = 0;
    }

    /// Everything written to stdout since the previous call.
    pub fn take(&mut self) -> String {
        let _ = std::io::stdout().flush();
        let mut out = Vec::new();
        let mut buf = [0u8; 4096];
        loop {
            let n = unsafe { libc::pread(self.fd, buf.as_mut_ptr() as *mut libc::c_void, buf.len(), self.off) };
            if n <= 0 {
                break;
            }
            out.extend_from_slice(&buf[..n as usize]);
            self.off += n as i64;
        }
        // Keep the file small: once everything has been consumed, rewind.
        if self.off > (1 << 20) {
            unsafe {
                libc::ftruncate(self.fd, 0);
                libc::lseek(1, 0, libc::SEEK_SET);
            }
            self.off = 0;
        }
        String::from_utf8_lossy(&out).into_owned()
    }
}
