//! Reference unifier: Robinson unification over a triangular substitution.
//! Deliberately naive; derived from the statements of C06–C09/C13, not from
//! the implementation.

use crate::refbuiltins;
use crate::term::T;
use std::collections::HashMap;

pub type Sub = HashMap<usize, T>;

#[derive(Debug, Clone, PartialEq)]
pub enum UErr {
    Fail,
    /// unification would need an occurs check: outside C06–C08
    Occurs,
    /// the statement is silent (e.g. arithmetic on an unbound argument,
    /// integer overflow): not judged
    Outside(String),
}

pub fn walk<'a>(mut t: &'a T, s: &'a Sub) -> &'a T {
    let mut guard = 0;
    while let T::Var(i, _) = t {
        match s.get(i) {
            Some(n) => t = n,
            None => break,
        }
        guard += 1;
        if guard > 100_000 {
            panic!("reference substitution is cyclic (oracle bug)");
        }
    }
    t
}

pub fn resolve(t: &T, s: &Sub) -> T {
    let t = walk(t, s);
    match t {
        T::Cplx(f, a) => T::Cplx(f.clone(), a.iter().map(|x| resolve(x, s)).collect()),
        T::Func(f, a) => T::Func(f.clone(), a.iter().map(|x| resolve(x, s)).collect()),
        T::List(a, tl) => {
            let a2: Vec<T> = a.iter().map(|x| resolve(x, s)).collect();
            let t2 = tl.as_ref().map(|t| Box::new(resolve(t, s)));
            T::List(a2, t2).norm()
        }
        o => o.clone(),
    }
}

fn occurs(v: usize, t: &T, s: &Sub) -> bool {
    let t = walk(t, s);
    match t {
        T::Var(i, _) => *i == v,
        T::Cplx(_, a) | T::Func(_, a) => a.iter().any(|x| occurs(v, x, s)),
        T::List(a, tl) => a.iter().any(|x| occurs(v, x, s)) || tl.as_ref().map_or(false, |t| occurs(v, t, s)),
        _ => false,
    }
}

fn bind(v: usize, t: &T, s: &mut Sub) -> Result<(), UErr> {
    if occurs(v, t, s) {
        return Err(UErr::Occurs);
    }
    s.insert(v, t.clone());
    Ok(())
}

/// `$_` (C09): matches anything, binds nothing.  Function terms (C13): the
/// value of the function is what is unified, whichever side it is on.
pub fn unify(a: &T, b: &T, s: &mut Sub) -> Result<(), UErr> {
    let a = walk(a, s).clone();
    let b = walk(b, s).clone();
    if matches!(a, T::Anon) || matches!(b, T::Anon) {
        return Ok(());
    }
    if let T::Func(name, args) = &a {
        let v = refbuiltins::eval_func(name, args, s).map_err(UErr::Outside)?;
        return unify(&v, &b, s);
    }
    if let T::Func(name, args) = &b {
        let v = refbuiltins::eval_func(name, args, s).map_err(UErr::Outside)?;
        return unify(&a, &v, s);
    }
    match (&a, &b) {
        (T::Var(i, _), T::Var(j, _)) if i == j => Ok(()),
        (T::Var(i, _), _) => bind(*i, &b, s),
        (_, T::Var(j, _)) => bind(*j, &a, s),
        (T::Atom(x), T::Atom(y)) => ok(x == y),
        (T::Int(x), T::Int(y)) => ok(x == y),
        (T::Float(x), T::Float(y)) => ok(x == y),
        (T::Cplx(f, x), T::Cplx(g, y)) => {
            if f != g || x.len() != y.len() {
                return Err(UErr::Fail);
            }
            for (p, q) in x.iter().zip(y.iter()) {
                unify(p, q, s)?;
            }
            Ok(())
        }
        (T::List(x, t), T::List(y, u)) => {
            let n = x.len().min(y.len());
            for (p, q) in x[..n].iter().zip(y[..n].iter()) {
                unify(p, q, s)?;
            }
            let rest_x = rest(&x[n..], t);
            let rest_y = rest(&y[n..], u);
            match (&rest_x, &rest_y) {
                (T::List(p, None), T::List(q, None)) if p.is_empty() && q.is_empty() => Ok(()),
                // Both still lists here means one of them is [] and the other
                // has at least one element or both have elements: only reachable
                // when one side ran out without a tail.
                (T::List(p, pt), T::List(q, qt)) => {
                    if p.is_empty() && pt.is_none() && !q.is_empty() {
                        return Err(UErr::Fail);
                    }
                    if q.is_empty() && qt.is_none() && !p.is_empty() {
                        return Err(UErr::Fail);
                    }
                    // [] vs [|T] cannot happen (rest() unwraps a bare tail)
                    Err(UErr::Fail)
                }
                _ => unify(&rest_x, &rest_y, s),
            }
        }
        _ => Err(UErr::Fail),
    }
}

/// What remains of a list after a common prefix: the remaining elements with
/// the tail, or the bare tail term when no elements remain.
fn rest(es: &[T], tail: &Option<Box<T>>) -> T {
    if es.is_empty() {
        if let Some(t) = tail {
            return (**t).clone();
        }
    }
    T::List(es.to_vec(), tail.clone())
}

fn ok(b: bool) -> Result<(), UErr> {
    if b {
        Ok(())
    } else {
        Err(UErr::Fail)
    }
}

/// Strict reading of `$_`: every occurrence is a distinct fresh variable.
pub fn freshen_anons(t: &T, next: &mut usize) -> T {
    match t {
        T::Anon => {
            *next += 1;
            T::Var(*next, "$_anon".into())
        }
        T::Cplx(f, a) => T::Cplx(f.clone(), a.iter().map(|x| freshen_anons(x, next)).collect()),
        T::Func(f, a) => T::Func(f.clone(), a.iter().map(|x| freshen_anons(x, next)).collect()),
        T::List(a, tl) => T::List(a.iter().map(|x| freshen_anons(x, next)).collect(), tl.as_ref().map(|t| Box::new(freshen_anons(t, next)))),
        o => o.clone(),
    }
}
