//! Harness-side program AST, conversion to suiron goals / rules (through the
//! public constructors, not the parser) and the documented source text.

use crate::refbuiltins::Rel;
use crate::term::*;
use serde_json::{json, Value};
use suiron::{BuiltInPredicate, Goal, Operator, Rule};

#[derive(Clone, Debug, PartialEq, Eq, Hash)]
pub enum G {
    Call(T),
    Unify(T, T),
    Cmp(Rel, T, T),
    And(Vec<G>),
    Or(Vec<G>),
    Not(Box<G>),
    /// time(G): G's first solution only; prints the elapsed time
    Time(Box<G>),
    Cut,
    Fail,
    Nl,
    Print(Vec<T>),
    PrintList(Vec<T>),
    /// append / count / include / exclude / functor with their arguments
    Bip(String, Vec<T>),
}

#[derive(Clone, Debug, PartialEq, Eq, Hash)]
pub struct Clause {
    pub head: T,
    pub body: Option<G>,
}

pub type Program = Vec<Clause>;

pub fn call(f: &str, args: Vec<T>) -> G {
    G::Call(cplx(f, args))
}
/// Source-level variable (id 0: renamed apart at every use).
pub fn v(name: &str) -> T {
    T::Var(0, name.to_string())
}
pub fn fact(f: &str, args: Vec<T>) -> Clause {
    Clause { head: cplx(f, args), body: None }
}
pub fn rule(f: &str, args: Vec<T>, body: G) -> Clause {
    Clause { head: cplx(f, args), body: Some(body) }
}

impl G {
    pub fn has_cut(&self) -> bool {
        match self {
            G::Cut => true,
            G::And(g) | G::Or(g) => g.iter().any(|x| x.has_cut()),
            G::Not(g) | G::Time(g) => g.has_cut(),
            _ => false,
        }
    }
    pub fn has_time(&self) -> bool {
        match self {
            G::Time(_) => true,
            G::And(g) | G::Or(g) => g.iter().any(|x| x.has_time()),
            G::Not(g) => g.has_time(),
            _ => false,
        }
    }
    pub fn has_not(&self) -> bool {
        match self {
            G::Not(_) => true,
            G::And(g) | G::Or(g) => g.iter().any(|x| x.has_not()),
            G::Time(g) => g.has_not(),
            _ => false,
        }
    }
    pub fn has_output(&self) -> bool {
        match self {
            G::Nl | G::Print(_) | G::PrintList(_) | G::Time(_) => true,
            G::And(g) | G::Or(g) => g.iter().any(|x| x.has_output()),
            G::Not(g) => g.has_output(),
            _ => false,
        }
    }
    pub fn leaves(&self) -> usize {
        match self {
            G::And(g) | G::Or(g) => g.iter().map(|x| x.leaves()).sum(),
            G::Not(g) | G::Time(g) => g.leaves(),
            _ => 1,
        }
    }

    pub fn map_terms(&self, f: &mut dyn FnMut(&T) -> T) -> G {
        match self {
            G::Call(t) => G::Call(f(t)),
            G::Unify(a, b) => G::Unify(f(a), f(b)),
            G::Cmp(r, a, b) => G::Cmp(*r, f(a), f(b)),
            G::And(g) => G::And(g.iter().map(|x| x.map_terms(f)).collect()),
            G::Or(g) => G::Or(g.iter().map(|x| x.map_terms(f)).collect()),
            G::Not(g) => G::Not(Box::new(g.map_terms(f))),
            G::Time(g) => G::Time(Box::new(g.map_terms(f))),
            G::Print(a) => G::Print(a.iter().map(|x| f(x)).collect()),
            G::PrintList(a) => G::PrintList(a.iter().map(|x| f(x)).collect()),
            G::Bip(n, a) => G::Bip(n.clone(), a.iter().map(|x| f(x)).collect()),
            G::Cut => G::Cut,
            G::Fail => G::Fail,
            G::Nl => G::Nl,
        }
    }

    /// The text `Display` is documented to give (and the parser to accept).
    /// `top` says whether this goal is the whole body (no parentheses) or an
    /// operand of an enclosing operator.
    pub fn text(&self) -> String {
        self.text_in(0)
    }
    // ctx: 0 = body, 1 = operand of `;`, 2 = operand of `,`
    fn text_in(&self, ctx: u8) -> String {
        match self {
            G::Call(t) => t.text(),
            G::Unify(a, b) => format!("{} = {}", a.text(), b.text()),
            G::Cmp(r, a, b) => format!("{}({}, {})", r.name(), a.text(), b.text()),
            G::And(g) => {
                let s = g.iter().map(|x| x.text_in(2)).collect::<Vec<_>>().join(", ");
                if ctx == 2 {
                    format!("({})", s)
                } else {
                    s
                }
            }
            G::Or(g) => {
                let s = g.iter().map(|x| x.text_in(1)).collect::<Vec<_>>().join("; ");
                if ctx >= 1 {
                    format!("({})", s)
                } else {
                    s
                }
            }
            G::Not(g) => format!("not({})", g.text_in(0)),
            G::Time(g) => format!("time({})", g.text_in(0)),
            G::Cut => "!".into(),
            G::Fail => "fail".into(),
            G::Nl => "nl".into(),
            G::Print(a) => format!("print({})", a.iter().map(|x| x.text()).collect::<Vec<_>>().join(", ")),
            G::PrintList(a) => format!("print_list({})", a.iter().map(|x| x.text()).collect::<Vec<_>>().join(", ")),
            G::Bip(n, a) => format!("{}({})", n, a.iter().map(|x| x.text()).collect::<Vec<_>>().join(", ")),
        }
    }

    pub fn to_json(&self) -> Value {
        let ts = |a: &Vec<T>| a.iter().map(|x| x.to_json()).collect::<Vec<_>>();
        match self {
            G::Call(t) => json!({"call": t.to_json()}),
            G::Unify(a, b) => json!({"unify": [a.to_json(), b.to_json()]}),
            G::Cmp(r, a, b) => json!({"cmp": [r.name(), a.to_json(), b.to_json()]}),
            G::And(g) => json!({"and": g.iter().map(|x| x.to_json()).collect::<Vec<_>>()}),
            G::Or(g) => json!({"or": g.iter().map(|x| x.to_json()).collect::<Vec<_>>()}),
            G::Not(g) => json!({"not": g.to_json()}),
            G::Time(g) => json!({"time": g.to_json()}),
            G::Cut => json!("!"),
            G::Fail => json!("fail"),
            G::Nl => json!("nl"),
            G::Print(a) => json!({"print": ts(a)}),
            G::PrintList(a) => json!({"print_list": ts(a)}),
            G::Bip(n, a) => json!({"bip": [n, ts(a)]}),
        }
    }
    pub fn from_json(v: &Value) -> Option<G> {
        if v == "!" {
            return Some(G::Cut);
        }
        if v == "fail" {
            return Some(G::Fail);
        }
        if v == "nl" {
            return Some(G::Nl);
        }
        let o = v.as_object()?;
        let ts = |x: &Value| -> Option<Vec<T>> { x.as_array()?.iter().map(T::from_json).collect() };
        let gs = |x: &Value| -> Option<Vec<G>> { x.as_array()?.iter().map(G::from_json).collect() };
        if let Some(x) = o.get("call") {
            return Some(G::Call(T::from_json(x)?));
        }
        if let Some(x) = o.get("unify") {
            return Some(G::Unify(T::from_json(&x[0])?, T::from_json(&x[1])?));
        }
        if let Some(x) = o.get("cmp") {
            return Some(G::Cmp(Rel::from_name(x[0].as_str()?)?, T::from_json(&x[1])?, T::from_json(&x[2])?));
        }
        if let Some(x) = o.get("and") {
            return Some(G::And(gs(x)?));
        }
        if let Some(x) = o.get("or") {
            return Some(G::Or(gs(x)?));
        }
        if let Some(x) = o.get("time") {
            return Some(G::Time(Box::new(G::from_json(x)?)));
        }
        if let Some(x) = o.get("not") {
            return Some(G::Not(Box::new(G::from_json(x)?)));
        }
        if let Some(x) = o.get("print") {
            return Some(G::Print(ts(x)?));
        }
        if let Some(x) = o.get("print_list") {
            return Some(G::PrintList(ts(x)?));
        }
        if let Some(x) = o.get("bip") {
            return Some(G::Bip(x[0].as_str()?.to_string(), ts(&x[1])?));
        }
        None
    }
}

impl Clause {
    pub fn text(&self) -> String {
        match &self.body {
            None => format!("{}.", self.head.text()),
            Some(b) => format!("{} :- {}.", self.head.text(), b.text()),
        }
    }
    pub fn to_json(&self) -> Value {
        json!({"head": self.head.to_json(), "body": self.body.as_ref().map(|b| b.to_json())})
    }
    pub fn from_json(v: &Value) -> Option<Clause> {
        let head = T::from_json(&v["head"])?;
        let body = if v["body"].is_null() { None } else { Some(G::from_json(&v["body"])?) };
        Some(Clause { head, body })
    }
    pub fn map_terms(&self, f: &mut dyn FnMut(&T) -> T) -> Clause {
        Clause { head: f(&self.head), body: self.body.as_ref().map(|b| b.map_terms(f)) }
    }
}

pub fn program_text(p: &Program) -> String {
    p.iter().map(|c| c.text()).collect::<Vec<_>>().join("  ")
}
pub fn program_json(p: &Program) -> Value {
    json!(p.iter().map(|c| c.to_json()).collect::<Vec<_>>())
}
pub fn program_from_json(v: &Value) -> Option<Program> {
    v.as_array()?.iter().map(Clause::from_json).collect()
}

fn bip(name: &str, terms: Option<Vec<suiron::Unifiable>>) -> Goal {
    Goal::BuiltInGoal(BuiltInPredicate::new(name.to_string(), terms))
}

/// Build the engine's goal through its public constructors.
pub fn to_goal(g: &G) -> Goal {
    let ts = |a: &Vec<T>| a.iter().map(to_suiron).collect::<Vec<_>>();
    match g {
        G::Call(t) => Goal::ComplexGoal(to_suiron(t)),
        G::Unify(a, b) => bip("unify", Some(vec![to_suiron(a), to_suiron(b)])),
        G::Cmp(r, a, b) => bip(r.name(), Some(vec![to_suiron(a), to_suiron(b)])),
        G::And(gs) => Goal::OperatorGoal(Operator::And(gs.iter().map(to_goal).collect())),
        G::Or(gs) => Goal::OperatorGoal(Operator::Or(gs.iter().map(to_goal).collect())),
        G::Not(g) => Goal::OperatorGoal(Operator::Not(vec![to_goal(g)])),
        G::Time(g) => Goal::OperatorGoal(Operator::Time(vec![to_goal(g)])),
        G::Cut => bip("!", None),
        G::Fail => bip("fail", None),
        G::Nl => bip("nl", None),
        G::Print(a) => bip("print", Some(ts(a))),
        G::PrintList(a) => bip("print_list", Some(ts(a))),
        G::Bip(n, a) => bip(n, Some(ts(a))),
    }
}

pub fn to_rule(c: &Clause) -> Rule {
    match &c.body {
        None => suiron::make_fact(to_suiron(&c.head)),
        Some(b) => suiron::make_rule(to_suiron(&c.head), to_goal(b)),
    }
}

/// Source text with the infix spellings (`$X = 1 + 2`, `$X < 3`) where the
/// goal has one; otherwise the canonical text.
pub fn infix_text(g: &G) -> String {
    fn term(t: &T) -> String {
        match t {
            T::Func(n, a) if a.len() == 2 && !matches!(a[0], T::Func(..)) && !matches!(a[1], T::Func(..)) => {
                let op = match n.as_str() {
                    "add" => "+",
                    "subtract" => "-",
                    "multiply" => "*",
                    "divide" => "/",
                    _ => return t.text(),
                };
                format!("{} {} {}", a[0].text(), op, a[1].text())
            }
            _ => t.text(),
        }
    }
    match g {
        G::Unify(a, b) => format!("{} = {}", term(a), term(b)),
        G::Cmp(r, a, b) => format!("{} {} {}", a.text(), r.infix(), b.text()),
        G::And(gs) if gs.iter().all(|g| !matches!(g, G::And(_) | G::Or(_))) => gs.iter().map(infix_text).collect::<Vec<_>>().join(", "),
        G::Or(gs) if gs.iter().all(|g| !matches!(g, G::And(_) | G::Or(_))) => gs.iter().map(infix_text).collect::<Vec<_>>().join("; "),
        G::Not(g) if !matches!(**g, G::And(_) | G::Or(_)) => format!("not({})", infix_text(g)),
        G::Time(g) if !matches!(**g, G::And(_) | G::Or(_)) => format!("time({})", infix_text(g)),
        other => other.text(),
    }
}

/// Build the knowledge base through the rule parser (`infix`: use the infix
/// spellings).  Err = the parser rejected a clause (C19's business, not ours).
pub fn build_kb_text(p: &Program, infix: bool) -> Result<suiron::KnowledgeBase, String> {
    let mut kb = suiron::KnowledgeBase::new();
    for c in p {
        let text = match (&c.body, infix) {
            (Some(b), true) => format!("{} :- {}.", c.head.text(), infix_text(b)),
            _ => c.text(),
        };
        let r = std::panic::catch_unwind(|| suiron::parse_rule(&text)).map_err(|_| format!("parser panicked on {}", text))?;
        match r {
            Ok(rule) => suiron::add_rules(&mut kb, vec![rule]),
            Err(e) => return Err(format!("{} : {}", text, e)),
        }
    }
    Ok(kb)
}

pub fn build_kb(p: &Program) -> suiron::KnowledgeBase {
    let mut kb = suiron::KnowledgeBase::new();
    suiron::add_rules(&mut kb, p.iter().map(to_rule).collect());
    kb
}
