//! Reference functions for the built-ins, written from the statements of
//! C04/C12/C14/C16/C17.  `Err(reason)` always means "the statement is silent
//! here": the caller skips and counts the case, it never judges it.

use crate::refunify::{resolve, unify, walk, Sub, UErr};
use crate::term::T;

#[derive(Clone, Copy, Debug, PartialEq)]
pub enum Num {
    I(i64),
    F(f64),
}

pub fn numbers(args: &[T], s: &Sub) -> Result<Vec<Num>, String> {
    let mut v = vec![];
    for a in args {
        match walk(a, s) {
            T::Int(i) => v.push(Num::I(*i)),
            T::Float(f) => v.push(Num::F(*f)),
            T::Var(..) => return Err("arithmetic on an unbound argument (documented panic)".into()),
            _ => return Err("arithmetic on a non-number (documented panic)".into()),
        }
    }
    Ok(v)
}

pub fn arith(name: &str, nums: &[Num]) -> Result<T, String> {
    if nums.is_empty() {
        return Err("arithmetic with no arguments".into());
    }
    let any_float = nums.iter().any(|n| matches!(n, Num::F(_)));
    if any_float {
        let f: Vec<f64> = nums
            .iter()
            .map(|n| match n {
                Num::I(i) => *i as f64,
                Num::F(f) => *f,
            })
            .collect();
        let mut acc = f[0];
        for x in &f[1..] {
            acc = match name {
                "add" => acc + x,
                "subtract" => acc - x,
                "multiply" => acc * x,
                "divide" => acc / x,
                _ => return Err(format!("unknown function {}", name)),
            };
        }
        Ok(T::Float(acc))
    } else {
        let i: Vec<i64> = nums
            .iter()
            .map(|n| match n {
                Num::I(i) => *i,
                Num::F(_) => unreachable!(),
            })
            .collect();
        let mut acc = i[0];
        for x in &i[1..] {
            let r = match name {
                "add" => acc.checked_add(*x),
                "subtract" => acc.checked_sub(*x),
                "multiply" => acc.checked_mul(*x),
                "divide" => {
                    if *x == 0 {
                        return Err("integer division by zero (outside C12)".into());
                    }
                    acc.checked_div(*x)
                }
                _ => return Err(format!("unknown function {}", name)),
            };
            acc = r.ok_or_else(|| "integer overflow (outside C12)".to_string())?;
        }
        Ok(T::Int(acc))
    }
}

/// Elements of a resolved list argument / the argument itself otherwise.
fn flatten_arg(t: &T, out: &mut Vec<T>, what: &str) -> Result<(), String> {
    match t {
        T::List(es, None) => {
            out.extend(es.iter().cloned());
            Ok(())
        }
        T::List(_, Some(tl)) => Err(format!("{}: list with an unbound or non-list tail ({})", what, tl.text())),
        T::Var(..) => Err(format!("{}: unbound variable argument", what)),
        o => {
            out.push(o.clone());
            Ok(())
        }
    }
}

pub fn join_text(args: &[T], s: &Sub) -> Result<T, String> {
    let mut all = vec![];
    for a in args {
        flatten_arg(&resolve(a, s), &mut all, "join")?;
    }
    let mut out = String::new();
    let mut first = true;
    for t in &all {
        let mut vs = vec![];
        t.vars(&mut vs);
        if !vs.is_empty() {
            return Err("join: an element is not ground".into());
        }
        let w = t.text();
        let punct = w == "," || w == "." || w == "?" || w == "!";
        if !first && !punct {
            out.push(' ');
        }
        out.push_str(&w);
        first = false;
    }
    Ok(T::Atom(out))
}

pub fn eval_func(name: &str, args: &[T], s: &Sub) -> Result<T, String> {
    match name {
        "join" => join_text(args, s),
        "add" | "subtract" | "multiply" | "divide" => {
            // nested function terms as arguments are not part of C12's claim
            if args.iter().any(|a| matches!(walk(a, s), T::Func(..))) {
                return Err("nested function argument".into());
            }
            arith(name, &numbers(args, s)?)
        }
        _ => Err(format!("unknown function {}", name)),
    }
}

#[derive(Clone, Copy, Debug, PartialEq, Eq, Hash)]
pub enum Rel {
    Eq,
    Lt,
    Le,
    Gt,
    Ge,
}

impl Rel {
    pub const ALL: [Rel; 5] = [Rel::Eq, Rel::Lt, Rel::Le, Rel::Gt, Rel::Ge];
    pub fn name(self) -> &'static str {
        match self {
            Rel::Eq => "equal",
            Rel::Lt => "less_than",
            Rel::Le => "less_than_or_equal",
            Rel::Gt => "greater_than",
            Rel::Ge => "greater_than_or_equal",
        }
    }
    pub fn infix(self) -> &'static str {
        match self {
            Rel::Eq => "==",
            Rel::Lt => "<",
            Rel::Le => "<=",
            Rel::Gt => ">",
            Rel::Ge => ">=",
        }
    }
    pub fn from_name(n: &str) -> Option<Rel> {
        Rel::ALL.iter().copied().find(|r| r.name() == n)
    }
}

/// C14: succeeds exactly when both operands are ground constants of
/// comparable kinds and compare accordingly.
pub fn compare(rel: Rel, a: &T, b: &T, s: &Sub) -> bool {
    use std::cmp::Ordering::*;
    let ord = match (walk(a, s), walk(b, s)) {
        (T::Atom(x), T::Atom(y)) => Some(x.cmp(y)),
        (T::Int(x), T::Int(y)) => Some(x.cmp(y)),
        (T::Float(x), T::Float(y)) => x.partial_cmp(y),
        (T::Int(x), T::Float(y)) => (*x as f64).partial_cmp(y),
        (T::Float(x), T::Int(y)) => x.partial_cmp(&(*y as f64)),
        _ => return false,
    };
    match (rel, ord) {
        (_, None) => false,
        (Rel::Eq, Some(o)) => o == Equal,
        (Rel::Lt, Some(o)) => o == Less,
        (Rel::Le, Some(o)) => o != Greater,
        (Rel::Gt, Some(o)) => o == Greater,
        (Rel::Ge, Some(o)) => o != Less,
    }
}

/// The list value `append(T1..Tn, Out)` unifies `Out` with.
pub fn append_value(inputs: &[T], s: &Sub) -> Result<T, String> {
    let mut all = vec![];
    for a in inputs {
        if matches!(walk(a, s), T::Anon) {
            return Err("append: `$_` as an input".into());
        }
        if matches!(walk(a, s), T::Func(..)) {
            return Err("append: function term as an input".into());
        }
        flatten_arg(&resolve(a, s), &mut all, "append")?;
    }
    Ok(T::List(all, None))
}

pub fn count_value(l: &T, s: &Sub) -> Result<T, String> {
    match resolve(l, s) {
        T::List(es, None) => Ok(T::Int(es.len() as i64)),
        T::List(_, Some(_)) => Err("count: list with an unbound tail".into()),
        _ => Err("count: not a list".into()),
    }
}

/// include / exclude: elements that do / do not unify with the filter, each
/// tested on its own under the current bindings; nothing is bound.
pub fn filter_value(filter: &T, l: &T, s: &Sub, include: bool) -> Result<T, String> {
    // The list itself is walked, its elements are kept as written (they are
    // compared after resolution anyway).
    let lst = resolve_list_spine(l, s)?;
    let mut out = vec![];
    for e in lst {
        let mut s2 = s.clone();
        let ok = match unify(filter, &e, &mut s2) {
            Ok(()) => true,
            Err(UErr::Fail) => false,
            Err(UErr::Occurs) => return Err("filter: occurs check".into()),
            Err(UErr::Outside(r)) => return Err(r),
        };
        if ok == include {
            out.push(e);
        }
    }
    Ok(T::List(out, None))
}

/// Elements of a list following bound tail variables, elements untouched.
pub fn resolve_list_spine(l: &T, s: &Sub) -> Result<Vec<T>, String> {
    let mut out = vec![];
    let mut cur = walk(l, s).clone();
    let mut guard = 0;
    loop {
        guard += 1;
        if guard > 10_000 {
            return Err("cyclic list".into());
        }
        match cur {
            T::List(es, tl) => {
                out.extend(es);
                match tl {
                    None => return Ok(out),
                    Some(t) => {
                        let w = walk(&t, s).clone();
                        match w {
                            T::List(..) => cur = w,
                            T::Anon => return Err("list with `$_` tail".into()),
                            T::Var(..) => return Err("list with an unbound tail".into()),
                            _ => return Err("improper list".into()),
                        }
                    }
                }
            }
            _ => return Err("not a list".into()),
        }
    }
}

/// functor(Term, Pattern [, Arity]): Ok(None) = fails, Ok(Some(sub)) = succeeds.
pub fn functor_goal(args: &[T], s: &Sub) -> Result<Option<Sub>, String> {
    if args.len() < 2 || args.len() > 3 {
        return Err("functor: arity".into());
    }
    let (f, n) = match walk(&args[0], s) {
        T::Cplx(f, a) => (f.clone(), a.len()),
        _ => return Ok(None),
    };
    let mut s2 = s.clone();
    match walk(&args[1], s).clone() {
        T::Atom(p) => {
            if p.is_empty() {
                return Err("functor: empty pattern".into());
            }
            let m = if let Some(pre) = p.strip_suffix('*') { f.starts_with(pre) } else { f == p };
            if !m {
                return Ok(None);
            }
        }
        v @ T::Var(..) => match unify(&v, &T::Atom(f.clone()), &mut s2) {
            Ok(()) => {}
            Err(_) => return Ok(None),
        },
        T::Anon => return Err("functor: `$_` as pattern".into()),
        _ => return Ok(None),
    }
    if args.len() == 3 {
        match unify(&args[2], &T::Int(n as i64), &mut s2) {
            Ok(()) => {}
            Err(UErr::Fail) => return Ok(None),
            Err(UErr::Occurs) => return Err("occurs".into()),
            Err(UErr::Outside(r)) => return Err(r),
        }
    }
    Ok(Some(s2))
}

/// Stands for an unfilled `%s` marker in reference output.
pub const UNFILLED: char = '\u{1}';

/// Stands for the elapsed time written by `time(G)`: `<n> second(s) <m> microseconds `.
pub const TIMING: char = '\u{2}';

/// Output text with every elapsed-time report of `time(G)` replaced by TIMING, so that two runs of
/// the engine can be compared with each other (the microseconds differ from run to run).
pub fn normalise_timing(out: &str) -> String {
    let mut res = String::new();
    let mut rest = out;
    'outer: while !rest.is_empty() {
        // a report starts at a digit that is not preceded by a digit
        let mut idx = 0;
        let bytes = rest.as_bytes();
        while idx < bytes.len() {
            if bytes[idx].is_ascii_digit() && (idx == 0 || !bytes[idx - 1].is_ascii_digit()) {
                if let Some(after) = strip_timing(&rest[idx..]) {
                    res.push_str(&rest[..idx]);
                    res.push(TIMING);
                    rest = after;
                    continue 'outer;
                }
            }
            idx += 1;
        }
        res.push_str(rest);
        break;
    }
    res
}

fn strip_timing(g: &str) -> Option<&str> {
    let d1 = g.find(|c: char| !c.is_ascii_digit())?;
    if d1 == 0 {
        return None;
    }
    let rest = g[d1..].strip_prefix(" seconds ").or_else(|| g[d1..].strip_prefix(" second "))?;
    let d2 = rest.find(|c: char| !c.is_ascii_digit())?;
    if d2 == 0 {
        return None;
    }
    rest[d2..].strip_prefix(" microseconds ")
}

/// Does the engine's output equal the reference's, where each UNFILLED in the
/// reference may be the empty string or a literal `%s`, and each TIMING is an
/// elapsed-time report?
pub fn out_matches(reference: &str, got: &str) -> bool {
    if let Some(i) = reference.find(TIMING) {
        if !reference[..i].contains(UNFILLED) {
            let (head, rest) = (&reference[..i], &reference[i + TIMING.len_utf8()..]);
            return match got.strip_prefix(head) {
                None => false,
                Some(g) => strip_timing(g).map_or(false, |g2| out_matches(rest, g2)),
            };
        }
    }
    match reference.find(UNFILLED) {
        None => reference == got,
        Some(i) => {
            let (head, rest) = (&reference[..i], &reference[i + UNFILLED.len_utf8()..]);
            match got.strip_prefix(head) {
                None => false,
                Some(g) => out_matches(rest, g) || g.strip_prefix("%s").map_or(false, |g2| out_matches(rest, g2)),
            }
        }
    }
}

/// Text written by `print(args…)` (C04).
pub fn print_text(args: &[T], s: &Sub) -> Result<String, String> {
    if args.is_empty() {
        return Err("print with no arguments".into());
    }
    let mut texts = vec![];
    for a in args {
        let r = resolve(a, s);
        let mut vs = vec![];
        r.vars(&mut vs);
        if !vs.is_empty() {
            return Err("print: argument not ground".into());
        }
        if r.has_func() {
            return Err("print: function term".into());
        }
        texts.push(r.text());
    }
    let fmt = &texts[0];
    let parts: Vec<&str> = fmt.split("%s").collect();
    let markers = parts.len() - 1;
    if markers == 0 {
        return Ok(texts.concat());
    }
    if markers < texts.len() - 1 {
        // more values than markers: every marker is filled, and the values left over follow the
        // text of the format in their order ("showing each argument's bound value": no argument
        // may go unshown; the position after the format is the one the crate's own unit test
        // fixes for one value left over, `"Hello, %s. ", Dave, "You're looking well today."`)
        let mut out = String::new();
        for (i, p) in parts.iter().enumerate() {
            out.push_str(p);
            if i < markers {
                out.push_str(&texts[i + 1]);
            }
        }
        for t in &texts[markers + 1..] {
            out.push_str(t);
        }
        return Ok(out);
    }
    // more markers than values: every value replaces a marker and the text of the
    // format is kept; what stands for an unfilled marker is not specified (UNFILLED
    // matches nothing or the marker itself, see `out_matches`)
    let mut out = String::new();
    for (i, p) in parts.iter().enumerate() {
        out.push_str(p);
        if i < markers {
            if i + 1 < texts.len() {
                out.push_str(&texts[i + 1]);
            } else {
                out.push(UNFILLED);
            }
        }
    }
    Ok(out)
}

/// Text written by `print_list(L)` for one flat list of constants.
pub fn print_list_text(args: &[T], s: &Sub) -> Result<String, String> {
    if args.len() != 1 {
        return Err("print_list: more than one argument".into());
    }
    match resolve(&args[0], s) {
        T::List(es, None) => {
            if !es.iter().all(|e| matches!(e, T::Atom(_) | T::Int(_) | T::Float(_))) {
                return Err("print_list: element is not a constant".into());
            }
            Ok(es.iter().map(|e| e.text()).collect::<Vec<_>>().join(", ") + "\n")
        }
        _ => Err("print_list: not a closed flat list".into()),
    }
}
