//! Running the real engine on one (program, query) history and collecting what
//! a user can observe: per `next_solution` call the answer and the text written.

use crate::e1::{decode_ss, find_cycle, panic_text};
use crate::prog::*;
use crate::supervise::Worker;
use crate::term::*;
use std::cell::RefCell;
use std::panic::{catch_unwind, AssertUnwindSafe};
use std::rc::Rc;
use suiron::{Goal, SolutionNode, Unifiable};

#[derive(Clone, Debug)]
pub struct ImplStep {
    pub ans: Option<T>,
    pub out: String,
    /// problems seen on this step that are violations in their own right
    pub cycle: Option<usize>,
    pub malformed: Option<String>,
    /// C10: ids of a rule fetched right after this step that collide with ids
    /// live in the answer's substitution set
    pub stale_ids: Option<String>,
    /// the engine's own `format_solution` of this answer (what solve prints)
    pub fmt: Option<String>,
}

pub struct ImplRun {
    pub steps: Vec<ImplStep>,
    pub panic: Option<String>,
}

/// Assign ids 1.. to the query's variables in order of first occurrence (what
/// `make_query` does), for the reference side.
pub fn number_query(q: &T) -> T {
    let mut names: Vec<String> = vec![];
    q.map_vars(&mut |_, n| {
        let i = match names.iter().position(|x| x == n) {
            Some(i) => i,
            None => {
                names.push(n.to_string());
                names.len() - 1
            }
        };
        T::Var(i + 1, n.to_string())
    })
}

pub fn make_query(q: &T) -> Goal {
    match to_suiron(q) {
        Unifiable::SComplex(terms) => suiron::make_query(terms),
        _ => panic!("query must be a complex term"),
    }
}

/// Break the Rc cycles (child <-> parent) of a finished search so that its
/// memory is released.
pub fn dismantle(sn: &Rc<RefCell<SolutionNode>>) {
    let mut stack = vec![Rc::clone(sn)];
    while let Some(n) = stack.pop() {
        if let Ok(mut b) = n.try_borrow_mut() {
            b.parent_node = None;
            if let Some(c) = b.child.take() {
                stack.push(c);
            }
            if let Some(c) = b.head_sn.take() {
                stack.push(c);
            }
            if let Some(c) = b.tail_sn.take() {
                stack.push(c);
            }
        }
    }
}

fn max_id_in(u: &Unifiable) -> usize {
    match u {
        Unifiable::LogicVar { id, .. } => *id,
        Unifiable::SComplex(v) => v.iter().map(max_id_in).max().unwrap_or(0),
        Unifiable::SFunction { terms, .. } => terms.iter().map(max_id_in).max().unwrap_or(0),
        Unifiable::SLinkedList { term, next, .. } => max_id_in(term).max(max_id_in(next)),
        _ => 0,
    }
}

fn ids_of_rule(r: &suiron::Rule) -> Vec<usize> {
    fn goal_ids(g: &Goal, out: &mut Vec<usize>) {
        match g {
            Goal::ComplexGoal(u) => term_ids(u, out),
            Goal::BuiltInGoal(b) => {
                if let Some(ts) = &b.terms {
                    ts.iter().for_each(|t| term_ids(t, out))
                }
            }
            Goal::OperatorGoal(op) => {
                for i in 0..op.len() {
                    goal_ids(&op.get_subgoal(i), out)
                }
            }
            Goal::Nil => {}
        }
    }
    fn term_ids(u: &Unifiable, out: &mut Vec<usize>) {
        match u {
            Unifiable::LogicVar { id, .. } => out.push(*id),
            Unifiable::SComplex(v) => v.iter().for_each(|x| term_ids(x, out)),
            Unifiable::SFunction { terms, .. } => terms.iter().for_each(|x| term_ids(x, out)),
            Unifiable::SLinkedList { term, next, .. } => {
                term_ids(term, out);
                term_ids(next, out)
            }
            _ => {}
        }
    }
    let mut out = vec![];
    term_ids(&r.head, &mut out);
    goal_ids(&r.body, &mut out);
    out
}

pub struct RunOpts {
    pub reasks: usize,
    pub max_steps: usize,
    /// probe `get_rule` after every step (C10 freshness)
    pub probe_fresh: bool,
    /// call start_query() first (false for C22 histories)
    pub reset_globals: bool,
}

/// One session with `next_solution`: ask until `None`, then `reasks` more times.
pub fn run_next(w: &mut Worker, kb: &suiron::KnowledgeBase, prog: &Program, query: &T, o: &RunOpts) -> ImplRun {
    if o.reset_globals {
        suiron::start_query();
    }
    let _ = w.cap.take();
    let q = match catch_unwind(AssertUnwindSafe(|| make_query(query))) {
        Ok(q) => Rc::new(q),
        Err(p) => return ImplRun { steps: vec![], panic: Some(format!("make_query: {}", panic_text(p))) },
    };
    let qmax = match &*q {
        Goal::ComplexGoal(u) => max_id_in(u),
        _ => 0,
    };
    let sn = suiron::make_base_node(Rc::clone(&q), kb);
    let mut steps = vec![];
    let mut panic = None;
    let mut nones = 0;
    while steps.len() < o.max_steps {
        w.beat();
        let r = catch_unwind(AssertUnwindSafe(|| suiron::next_solution(Rc::clone(&sn))));
        let out = w.cap.take();
        match r {
            Err(p) => {
                panic = Some(panic_text(p));
                steps.push(ImplStep { ans: None, out, cycle: None, malformed: None, stale_ids: None, fmt: None });
                break;
            }
            Ok(None) => {
                steps.push(ImplStep { ans: None, out, cycle: None, malformed: None, stale_ids: None, fmt: None });
                nones += 1;
                if nones > o.reasks {
                    break;
                }
            }
            Ok(Some(ss)) => {
                let sub = decode_ss(&ss);
                let cycle = find_cycle(&sub);
                let mut ans = None;
                let mut malformed = None;
                let mut stale_ids = None;
                let mut fmt = None;
                if cycle.is_none() {
                    match catch_unwind(AssertUnwindSafe(|| q.replace_variables(&ss))) {
                        Ok(u) => {
                            fmt = catch_unwind(AssertUnwindSafe(|| suiron::format_solution(&q, &u))).ok();
                            if let Err(e) = wellformed_resolved(&u) {
                                malformed = Some(e);
                            }
                            ans = Some(decode(&u));
                        }
                        Err(p) => {
                            panic = Some(format!("replace_variables: {}", panic_text(p)));
                        }
                    }
                }
                if o.probe_fresh && !prog.is_empty() {
                    // ids live in the current search: the query's, every index of
                    // the substitution set, every id inside a binding
                    let mut live = qmax.max(ss.len().saturating_sub(1));
                    for e in ss.iter().flatten() {
                        live = live.max(max_id_in(e));
                    }
                    let saved = suiron::get_var_id();
                    for c in prog.iter().take(3) {
                        if let T::Cplx(f, a) = &c.head {
                            let key = format!("{}/{}", f, a.len());
                            if let Ok(r) = catch_unwind(AssertUnwindSafe(|| suiron::get_rule(kb, &key, 0))) {
                                let ids = ids_of_rule(&r);
                                if let Some(bad) = ids.iter().find(|i| **i <= live) {
                                    stale_ids = Some(format!("rule {} fetched mid-search got variable id {} but ids up to {} are live in the answer's substitution set", key, bad, live));
                                }
                            }
                        }
                    }
                    suiron::set_var_id(saved);
                }
                steps.push(ImplStep { ans, out, cycle, malformed, stale_ids, fmt });
                if panic.is_some() {
                    break;
                }
                if nones > 0 {
                    // an answer after "no more": keep counting re-asks
                    nones += 1;
                    if nones > o.reasks {
                        break;
                    }
                }
            }
        }
    }
    dismantle(&sn);
    ImplRun { steps, panic }
}

/// In a *resolved* answer a tail_var node may hold whatever its variable was
/// bound to, so only counts / terminator are checked, per spine segment.
pub fn wellformed_resolved(u: &Unifiable) -> Result<(), String> {
    match u {
        Unifiable::SComplex(v) => v.iter().try_for_each(wellformed_resolved),
        Unifiable::SLinkedList { .. } => {
            let mut cur = u;
            loop {
                match cur {
                    Unifiable::SLinkedList { term, next, count, tail_var } => {
                        if **term == Unifiable::Nil {
                            if *count != 0 || *tail_var || **next != Unifiable::Nil {
                                return Err(format!("bad empty-list node in {}", shape(u)));
                            }
                            return Ok(());
                        }
                        if *tail_var {
                            // bound tail: its value is a list in its own right
                            return wellformed_resolved(term);
                        }
                        wellformed_resolved(term)?;
                        match &**next {
                            Unifiable::SLinkedList { count: c2, .. } => {
                                if *c2 + 1 != *count {
                                    return Err(format!("count {} followed by {} in {}", count, c2, shape(u)));
                                }
                            }
                            other => return Err(format!("list ends in {} instead of the empty-list node: {}", other, shape(u))),
                        }
                        cur = next;
                    }
                    _ => return Ok(()),
                }
            }
        }
        _ => Ok(()),
    }
}

fn cpu_seconds() -> f64 {
    let mut ts = libc::timespec { tv_sec: 0, tv_nsec: 0 };
    unsafe {
        libc::clock_gettime(libc::CLOCK_PROCESS_CPUTIME_ID, &mut ts);
    }
    ts.tv_sec as f64 + ts.tv_nsec as f64 * 1e-9
}

/// `solve_all` twin: the strings it returns.  `Ok(None)`: inconclusive - the call reported a
/// timeout although this process used almost no CPU time during it (the machine is so loaded that
/// a microsecond search was off the CPU for a second of wall time); retried, never judged.
pub fn run_solve_all(w: &mut Worker, kb: &suiron::KnowledgeBase, query: &T) -> Result<Option<(Vec<String>, f64, f64)>, String> {
    for _attempt in 0..4 {
        let _ = w.cap.take();
        let q = Rc::new(make_query(query));
        let sn = suiron::make_base_node(Rc::clone(&q), kb);
        let (c0, t0) = (cpu_seconds(), std::time::Instant::now());
        let r = catch_unwind(AssertUnwindSafe(|| suiron::solve_all(Rc::clone(&sn))));
        let (cpu, wall) = (cpu_seconds() - c0, t0.elapsed().as_secs_f64());
        dismantle(&sn);
        let _ = w.cap.take();
        match r {
            Ok(v) => {
                let timed_out = v.last().map_or(false, |s| s.starts_with("Query timed out"));
                if timed_out && wall >= 0.9 && cpu < 0.3 {
                    w.count("solve_all.rerun_because_starved", 1);
                    std::thread::sleep(std::time::Duration::from_millis(200));
                    continue;
                }
                return Ok(Some((v, wall, cpu)));
            }
            Err(p) => return Err(panic_text(p)),
        }
    }
    w.count("solve_all.inconclusive_starved", 1);
    Ok(None)
}

/// `solve` twin: call it until "No more." (or the step cap), return the strings.
pub fn run_solve(w: &mut Worker, kb: &suiron::KnowledgeBase, query: &T, max: usize, extra: usize) -> Result<Vec<String>, String> {
    let _ = w.cap.take();
    let q = Rc::new(make_query(query));
    let sn = suiron::make_base_node(Rc::clone(&q), kb);
    let mut out = vec![];
    let mut after = 0;
    while out.len() < max {
        let r = catch_unwind(AssertUnwindSafe(|| suiron::solve(Rc::clone(&sn))));
        match r {
            Ok(s) => {
                let done = s == "No more." || s.starts_with("Query timed out");
                out.push(s);
                if done || after > 0 {
                    after += 1;
                    if after > extra {
                        break;
                    }
                }
            }
            Err(p) => {
                dismantle(&sn);
                return Err(panic_text(p));
            }
        }
    }
    dismantle(&sn);
    let _ = w.cap.take();
    Ok(out)
}

/// What `solve`/`solve_all` are documented to print for one answer.
pub fn format_answer(query: &T, answer: &T) -> Option<String> {
    let (qa, aa) = match (query, answer) {
        (T::Cplx(_, qa), T::Cplx(_, aa)) => (qa, aa),
        _ => return None,
    };
    let mut parts = vec![];
    for (q, a) in qa.iter().zip(aa.iter()) {
        if let T::Var(_, name) = q {
            let mut vs = vec![];
            a.vars(&mut vs);
            if !vs.is_empty() || a.has_anon() {
                return None; // ids of unbound variables are not specified
            }
            parts.push(format!("{} = {}", name, display(a)?));
        }
    }
    Some(parts.join(", "))
}

/// The engine's documented rendering of a ground value.
pub fn display(t: &T) -> Option<String> {
    Some(match t {
        T::Atom(a) => a.clone(),
        T::Int(i) => i.to_string(),
        T::Float(f) => format!("{}", f),
        T::Cplx(f, a) => format!("{}({})", f, a.iter().map(display).collect::<Option<Vec<_>>>()?.join(", ")),
        // lists: a list that was put together through a bound tail variable is
        // documented to print as `[a | [b, c]]`; the decoded term no longer
        // says how it was built, so list values are compared with the twin run
        _ => return None,
    })
}
