//! vh — verification harness for suiron-rust (model-checking family).
//! `vh <property> [--tier quick|thorough]`, `vh replay <file>`.
//! Worker processes are the same binary with VH_WORKER=1.

mod c10;
mod capture;
mod e1;
mod e2;
mod e3;
mod e4;
mod e4b;
mod e5run;
mod gen;
mod gen3;
mod gen_mix;
mod gen_scale;
mod implrun;
mod miri;
mod prog;
mod refsolve;
mod refbuiltins;
mod refunify;
mod report;
mod sessions;
mod supervise;
mod term;

use serde_json::{json, Value};
use std::time::Duration;

fn nshards() -> usize {
    std::env::var("VH_JOBS").ok().and_then(|s| s.parse().ok()).unwrap_or_else(|| std::thread::available_parallelism().map(|n| n.get()).unwrap_or(8).min(16))
}

fn engine_of(prop: &str) -> &'static str {
    match prop {
        "C06" | "C07" | "C08" | "C09" | "C13" => "e1",
        "C01" | "C02" | "C03" | "C04" | "C05" | "C10" | "C11" | "C12" | "C14" | "C15" | "C16" | "C17" => "e2",
        "C18" | "C19" | "C20" | "C21" => "e4",
        "C22" | "C23" => "tm",
        "C24" => "miri",
        _ => "none",
    }
}

fn main() {
    let args: Vec<String> = std::env::args().skip(1).collect();
    if args.is_empty() {
        eprintln!("usage: vh <property> [--tier quick|thorough] | vh replay <file>");
        std::process::exit(2);
    }
    // big stack: both the reference interpreter and the engine recurse
    // (the session-history workers fork once per history: a small stack keeps the copy-on-write cost down)
    let forking = std::env::var("VH_WORKER").is_ok() && args.iter().any(|a| a == "C22" || a == "C23");
    let child = std::thread::Builder::new().stack_size(if forking { 32 << 20 } else { 1 << 30 }).spawn(move || real_main(args)).unwrap();
    let code = child.join().unwrap_or(2);
    std::process::exit(code);
}

fn real_main(args: Vec<String>) -> i32 {
    let mut tier = report::tier();
    let mut i = 0;
    let mut pos = vec![];
    while i < args.len() {
        if args[i] == "--tier" && i + 1 < args.len() {
            tier = args[i + 1].clone();
            i += 2;
        } else {
            pos.push(args[i].clone());
            i += 1;
        }
    }
    std::env::set_var("VERIF_TIER", &tier);
    if pos[0] == "replay" {
        return replay(&pos[1]);
    }
    if pos[0] == "miri-corpus" {
        // vh miri-corpus <file> [--tier t]: write the E6 corpus (debugging aid)
        let c = miri::corpus(&tier);
        std::fs::write(&pos[1], c.lines.join("\n") + "\n").expect("write corpus");
        println!("{} cases; with cut {}, with not {}, with timer {}; {:?}", c.lines.len(), c.with_cut, c.with_not, c.with_timer, c.families);
        return 0;
    }
    let prop = pos[0].clone();
    if std::env::var("VH_WORKER").is_ok() {
        let eng = std::env::var("VH_ENGINE").unwrap_or_else(|_| engine_of(&prop).to_string());
        match eng.as_str() {
            "e1" => e1::worker(&tier),
            "e2" => e2::worker(&prop, &tier),
            "tm" | "sessions" => sessions::worker(&prop, &tier),
            "c10" => c10::worker(&tier),
            "e4" => match prop.as_str() {
                "C18" => e4::worker_c18(&tier),
                "C19" => e4::worker_c19(&tier),
                "C20" => e4::worker_c20(&tier),
                _ => e4b::worker_c21(&tier),
            },
            _ => {}
        }
        return 0;
    }
    match engine_of(&prop) {
        "e1" => run_e1(&prop, &tier),
        "e2" => run_e2(&prop, &tier),
        "e4" => run_e4(&prop, &tier),
        "tm" => run_tm(&prop, &tier),
        "miri" => run_miri(&prop, &tier),
        _ => {
            eprintln!("unknown property {}", prop);
            2
        }
    }
}

fn replay(path: &str) -> i32 {
    let s = match std::fs::read_to_string(path) {
        Ok(s) => s,
        Err(e) => {
            eprintln!("cannot read {}: {}", path, e);
            return 2;
        }
    };
    let v: Value = serde_json::from_str(&s).expect("replay file is JSON");
    let mut w = &v["witness"];
    if w["engine"].is_null() && w["witness"].is_object() {
        // a crashed / hung / Miri-flagged case: the description wraps the witness
        w = &w["witness"];
    }
    println!("replaying {} class {}", v["property"], v["class"]);
    let ok = match w["engine"].as_str() {
        Some("e1") => e1::replay(w),
        Some("e2") => e2::replay(w),
        Some("e4") => match w["kind"].as_str() {
            Some("c18") => e4::replay_c18(w),
            Some("c20") => e4::replay_c20(w),
            Some("c21") => e4b::replay_c21(w),
            _ => e4::replay_c19(w),
        },
        Some("e5") => e5run::replay(w),
        Some("c10") => c10::replay(w),
        Some("miri") => miri::replay(w),
        Some("sessions") => sessions::replay(w),
        Some("e3") => {
            println!("list case: {}", w["text"]);
            println!("(re-run ./check C15: the direct list checks are deterministic and take under a second)");
            true
        }
        _ => {
            eprintln!("no replayer for this witness");
            return 2;
        }
    };
    if ok {
        0
    } else {
        1
    }
}

fn run_e1(prop: &str, tier: &str) -> i32 {
    let args = vec![prop.to_string(), "--tier".into(), tier.to_string()];
    let cap = if tier == "thorough" { 3600 } else { 600 };
    let mut out = supervise::run_sharded(&args, nshards(), Duration::from_secs(30), Duration::from_secs(cap), &[]);
    if prop == "C08" {
        // "programs that alias variables through rule heads": the alias / list / non-ground-fact
        // program families on the real solver; a cycle in any answer's substitution set is charged to C08
        let o2 = supervise::run_sharded(&args, nshards(), Duration::from_secs(20), Duration::from_secs(cap), &[("VH_ENGINE".to_string(), "e2".to_string())]);
        out.absorb(o2);
    }
    let tr = *out.stats.get("transitions").unwrap_or(&0) + *out.stats.get("next_solution_calls").unwrap_or(&0);
    let states = *out.distinct.get("states").unwrap_or(&0);
    let coverage = json!({
        "states": states,
        "transitions": tr,
        "traces_validated_against_impl": tr,
        "samples": report::samples(&out, 5),
        "exhaustive": !out.capped,
        "distinct_outcome_classes": out.distinct.get("outcomes"),
        "rule": "state = real substitution set reached by <= d successful real unify calls (exact fingerprint); transition = one ordered pair of the term universe unified by the real code from that state, in both orders, judged against the reference unifier; every transition is an execution of the implementation",
        "bounds": {"tier": tier, "spaces": "full: priors depth 1 over the small universe x all ordered pairs of the full universe in every encoding (canonical, renamed, parsed+renamed); alias: depth 3 (quick) / 4 (thorough) over {$X,$Y,$Z,$_,a,f($Y),[a|$Z]}; func: function terms x partners (C13); thorough adds: all ordered pairs of the full universe from every state reachable in <= 3 unifications over the small universe (that set of states is closed at depth 3: depth 4 adds none, see counters space.*.prior_states)"},
    });
    let verdict = report::Verdict {
        property: prop.to_string(),
        level: "model_checking".into(),
        coverage,
        assumptions: vec![
            "small-scope hypothesis: terms of depth <= 2, three named variables, lists of <= 3 elements".into(),
            "reference unifier (harness/src/refunify.rs) is the oracle; pairs needing an occurs check are counted and not judged".into(),
            "a `$_` nested inside a binding makes success order-dependent in principle; pairs on which the strict and wildcard readings disagree are counted as grey-zone and judged only by the weak clauses".into(),
        ],
    };
    report::finish(verdict, &out)
}

fn run_e2(prop: &str, tier: &str) -> i32 {
    let args = vec![prop.to_string(), "--tier".into(), tier.to_string()];
    let cap = if tier == "thorough" { 3 * 3600 } else { 900 };
    let mut out = supervise::run_sharded(&args, nshards(), Duration::from_secs(20), Duration::from_secs(cap), &[]);
    if prop == "C10" {
        // the direct part: renaming every term / goal / rule / query of the grammar
        let o2 = supervise::run_sharded(&args, nshards(), Duration::from_secs(20), Duration::from_secs(cap), &[("VH_ENGINE".to_string(), "c10".to_string())]);
        out.absorb(o2);
    }
    let calls = *out.stats.get("next_solution_calls").unwrap_or(&0) + *out.stats.get("renamings").unwrap_or(&0);
    let hist = *out.stats.get("histories").unwrap_or(&0);
    // C15's direct part: each element sequence is a state, each list built from it a transition
    let seqs = *out.stats.get("sequences").unwrap_or(&0);
    let built: u64 = out.stats.iter().filter(|(k, _)| k.starts_with("built.")).map(|(_, v)| *v).sum();
    let coverage = json!({
        "states": hist + calls + seqs,
        "transitions": calls + built,
        "traces_validated_against_impl": hist,
        "samples": report::samples(&out, 5),
        "exhaustive": !out.capped,
        "distinct_outcome_classes": out.distinct.get("outcomes"),
        "rule": "state = (program, query, number of answers consumed): distinct by construction; transition = one next_solution call on the real engine, judged against the reference interpreter's step (answer up to renaming of unbound variables, text written); histories run to exhaustion plus 3 re-asks",
        "bounds": {"tier": tier, "families": "see harness/src/gen.rs: core (1-2 clauses, and/or trees <= 3 leaves), lists (all clause and goal orders), builtins, cut (<= 4 leaves, 1-3 clauses, caller/sibling wrappers), not, output", "step_budget": e2::BUDGET, "max_answers": e2::MAX_ANSWERS, "reasks": e2::REASKS},
    });
    let verdict = report::Verdict {
        property: prop.to_string(),
        level: "model_checking".into(),
        coverage,
        assumptions: vec![
            "small-scope hypothesis: programs of the enumerated shapes only".into(),
            "reference interpreter (harness/src/refsolve.rs) is the oracle; it is first checked against the repository's own documented answers".into(),
            "programs whose reference search exceeds the step budget, needs an occurs check or reaches behaviour the statements are silent on are counted under skipped.* and not judged".into(),
        ],
    };
    report::finish(verdict, &out)
}

fn run_e4(prop: &str, tier: &str) -> i32 {
    let args = vec![prop.to_string(), "--tier".into(), tier.to_string()];
    let cap = if tier == "thorough" { 3 * 3600 } else { 900 };
    let out = supervise::run_sharded(&args, nshards(), Duration::from_secs(10), Duration::from_secs(cap), &[]);
    let g = |k: &str| *out.stats.get(k).unwrap_or(&0);
    let (level, coverage, assumptions) = match prop {
        "C18" => (
            "exploration",
            json!({
                "evaluations": g("calls"),
                "distinct_nontrivial": out.distinct.get("accepted_inputs").copied().unwrap_or(0),
                "rule": "inputs = every string of length <= 4 (quick) / 5 (thorough) over the 26-symbol syntax alphabet, plus every single edit (delete / insert / replace by each of 30 symbols, every position) of a 24-text valid corpus (thorough: also double edits with 12 structural symbols at distance <= 2); each input goes to all 10 parser entry points under catch_unwind inside a watchdogged worker. Non-trivial = distinct inputs accepted (a value returned) by at least one parser",
                "samples": report::samples(&out, 5),
                "exhaustive": !out.capped,
                "inputs": g("inputs"),
                "panics_observed": g("panics"),
            }),
            vec!["panics are identified by panic site (file:line); aborts, stack overflows and hangs are attributed to the single input being parsed".to_string()],
        ),
        "C19" => (
            "model_checking",
            json!({
                "states": g("c19.terms") + g("c19.goals") + g("c19.rules"),
                "transitions": 3 * (g("c19.terms") + g("c19.goals") + g("c19.rules")) + g("c19.infix_goals"),
                "traces_validated_against_impl": g("c19.terms") + g("c19.goals") + g("c19.rules"),
                "samples": report::samples(&out, 5),
                "exhaustive": !out.capped,
                "rule": "state = one derivation of the canonical grammar (term depth <= 2 quick / 3 thorough; leaf goals over depth-1 terms; rules with and/or bodies of <= 3 goals); transitions = parse(canonical text), Display(parsed), parse(Display) on the real parsers, each compared with the value built through the constructors / the canonical printer",
            }),
            vec!["canonical printer = harness term/goal text(); zero-arity complex terms print as `f()` as the repository's own tests fix it".to_string(), "parenthesised goal groups and floats without a fractional part are outside C19".to_string()],
        ),
        "C20" => (
            "model_checking",
            json!({
                "states": g("c20.texts"),
                "transitions": g("c20.parses"),
                "traces_validated_against_impl": g("c20.texts"),
                "samples": report::samples(&out, 5),
                "exhaustive": !out.capped,
                "rule": "state = one term text (canonical grammar plus signed numbers, punctuation atoms, odd numerals); transitions = parsing it in 9 contexts (alone, first/last complex argument, built-in argument, first/last list element, left/right infix operand, query argument) on the real parsers; all nine results must be the same term (ids ignored) or all errors",
            }),
            vec!["the surrounding context text is fixed (`ctx(_, zz)`, `[_, zz]`, `_ = zz`, `print(_, zz)`)".to_string()],
        ),
        _ => (
            "model_checking",
            json!({
                "states": g("c21.programs"),
                "transitions": g("c21.files_loaded"),
                "traces_validated_against_impl": g("c21.files_loaded"),
                "samples": report::samples(&out, 3),
                "exhaustive": !out.capped,
                "rule": "state = a program of 1-3 rules of the rule grammar (plus float / infix / quoted extras and the corpus); transition = one layout (subset of legal break points after - , ; =, indentation, blank lines, one comment of each marker outside brackets) written to a scratch file and loaded by the real load_kb_from_file; the result must equal the knowledge base built by parse_rule on each rule",
            }),
            vec!["rules the rule parser itself rejects are skipped (C19 owns them)".to_string(), "break points inside quoted atoms and comments inside parentheses/brackets are not generated".to_string()],
        ),
    };
    let verdict = report::Verdict { property: prop.to_string(), level: level.into(), coverage, assumptions };
    report::finish(verdict, &out)
}

/// C22 / C23: the E5 explorer (virtual time, all interleavings within the
/// bounds) plus the session histories with the real timer in real time.
fn run_tm(prop: &str, tier: &str) -> i32 {
    let cap = if tier == "thorough" { 3 * 3600 } else { 900 };
    let mut out = e5run::run(prop, tier, nshards(), Duration::from_secs(cap));
    let e5_outcomes = e5run::OUTCOMES.with(|o| o.borrow().clone());
    let args = vec![prop.to_string(), "--tier".into(), tier.to_string()];
    out.stats.insert("wall.e5_ms".into(), (out.wall_s * 1000.0) as u64);
    let o2 = supervise::run_sharded(&args, nshards(), Duration::from_secs(60), Duration::from_secs(cap), &[]);
    out.stats.insert("wall.sessions_ms".into(), (o2.wall_s * 1000.0) as u64);
    out.absorb(o2);
    // real-time conformance: outcomes observed with the genuine thread_timer crate and OS
    // threads must be members of the outcome sets explored for the matching scenario
    let mut conf_ok = 0u64;
    let mut conf_total = 0u64;
    let abstract_of = |s: &str| (s.matches(" = ").count(), s.contains("timed out"));
    let confs: Vec<Value> = out.records.iter().filter(|r| r["t"] == "conf").cloned().collect();
    for c in &confs {
        let scen = c["scenario"].as_str().unwrap_or("");
        let oc = c["outcome"].as_str().unwrap_or("");
        let Some(set) = e5_outcomes.get(scen) else { continue };
        conf_total += 1;
        let hit = if c["abstract"].as_bool().unwrap_or(false) { set.keys().any(|k| abstract_of(k) == abstract_of(oc)) } else { set.contains_key(oc) };
        if hit {
            conf_ok += 1;
        } else {
            out.records.push(json!({"t":"viol","prop":prop,"class":format!("conformance:{}", scen),"kind":"conformance","msg":format!("a real-time run with the genuine timer crate gave the outcome {:?}, which is not among the {} outcomes explored for scenario {}: {:?}", oc, set.len(), scen, set.keys().collect::<Vec<_>>()),"witness":{"engine":"conformance","scenario":scen,"outcome":oc}}));
        }
    }
    out.records.retain(|r| r["t"] != "conf");
    let g = |k: &str| *out.stats.get(k).unwrap_or(&0);
    let coverage = json!({
        "states": g("e5.choice_points") + out.distinct.get("global_states").copied().unwrap_or(0),
        "transitions": g("e5.schedules") + g("engine_calls"),
        "traces_validated_against_impl": conf_ok + g("histories"),
        "samples": report::samples(&out, 8),
        "exhaustive": !out.capped,
        "schedules_explored": g("e5.schedules"),
        "scheduling_and_time_choice_points": g("e5.choice_points"),
        "distinct_outcomes_over_all_scenarios": out.distinct.get("e5_outcomes"),
        "real_time_conformance_runs": conf_total,
        "real_time_conformance_matched": conf_ok,
        "session_histories_in_fresh_processes": g("histories"),
        "rule": "E5: state = one scheduling or time choice point of an execution of the real solve/solve_all/next_solution code with the real thread_timer source on shuttle primitives; every schedule with <= P preemptions and <= D time deviations is executed (depth-first, prefix replay checked for divergence) and judged by the answer-prefix/timeout oracle; sessions: every history of sessions up to the length bound is run in a fresh process with the real timer and compared with the reference interpreter; real-time runs must land in the explored outcome sets",
        "bounds": e5run::plans(prop, tier).iter().map(|p| format!("{}: preemptions<={} time-deviations<={}{}", p.scenario, p.pre, p.dev, if p.shard_prefix > 0 { format!(" (sharded by {}-step schedule prefixes)", p.shard_prefix) } else { String::new() })).collect::<Vec<_>>(),
    });
    let verdict = report::Verdict {
        property: prop.to_string(),
        level: "model_checking".into(),
        coverage,
        assumptions: vec![
            "the timer is thread_timer 0.3.0's own source with its three `use std::...` lines re-targeted onto shuttle primitives (hash-checked generator, harness_e5/gen_shim.sh); timed waits run on a virtual clock that advances only at query_stopped() checks and between sessions".into(),
            "sequentially consistent interleavings only (shuttle); weak-memory effects are C24's (Miri)".into(),
            "scheduling points: every shuttle synchronisation operation plus the five hook events of time_out.rs (cfg suiron_verif)".into(),
            "session histories: a slow query is one whose search cannot finish within seconds (10^9 inferences), so its timeout is deterministic".into(),
        ],
    };
    report::finish(verdict, &out)
}

/// C24: the corpus under Miri, both aliasing models.
fn run_miri(prop: &str, tier: &str) -> i32 {
    let cap = if tier == "thorough" { 3 * 3600 } else { 1200 };
    let (out, cp) = miri::run(tier, nshards(), Duration::from_secs(cap));
    let g = |k: &str| *out.stats.get(k).unwrap_or(&0);
    let samples: Vec<Value> = cp.lines.iter().step_by((cp.lines.len() / 5).max(1)).take(5).map(|l| json!(l.replace('\t', " | "))).collect();
    let coverage = json!({
        "evaluations": g("miri.executions"),
        "distinct_nontrivial": cp.with_cut + cp.with_not + cp.with_timer,
        "rule": "one evaluation = one call history of the corpus (parse the rules, build the knowledge base, run the query to exhaustion plus re-asks, or through solve / solve_all with the real timer thread, or through load_kb_from_file) executed under Miri; every history runs twice, under Stacked Borrows and under Tree Borrows, with the data-race detector on. The corpus is enumerated from the same bounded program families as E2 (cut at every position of every and/or shape, not, nested and/or, recursion over lists, output, built-ins, non-ground facts) plus histories in which the 1 s timer fires in the middle of a search and further queries follow. Non-trivial = distinct histories that execute a cut, a not, or the timer thread (counted from the corpus)",
        "samples": samples,
        "exhaustive": !out.capped,
        "corpus_cases": cp.lines.len(),
        "cases_by_family": cp.families,
        "cases_with_cut": cp.with_cut,
        "cases_with_not": cp.with_not,
        "cases_with_timer_thread": cp.with_timer,
        "clean_under_stacked_borrows": g("miri.stacked.cases_clean"),
        "clean_under_tree_borrows": g("miri.tree.cases_clean"),
        "timer_fired_mid_search": g("miri.timer_fired_mid_search"),
    });
    let verdict = report::Verdict {
        property: prop.to_string(),
        level: "exploration".into(),
        coverage,
        assumptions: vec![
            "Miri (nightly) is the monitor: its Stacked Borrows and Tree Borrows models are experimental; leaks (the solver's parent/child Rc cycles, timer threads alive at exit) are not undefined behaviour and are ignored".into(),
            "data races: Miri's happens-before detector sees every access that executes, with the real thread_timer crate and real time (isolation disabled); it is insensitive to the interleaving, the interleaving-sensitive outcomes are C22/C23's (E5)".into(),
            "only histories expressible in the text syntax (not((a, b)) is API-only and is not in the corpus)".into(),
        ],
    };
    report::finish(verdict, &out)
}
