//! vh — verification harness for suiron-rust (model-checking family).
//! `vh <property> [--tier quick|thorough]`, `vh replay <file>`.
//! Worker processes are the same binary with VH_WORKER=1.

mod capture;
mod e1;
mod e2;
mod e3;
mod gen;
mod gen3;
mod implrun;
mod prog;
mod refsolve;
mod refbuiltins;
mod refunify;
mod report;
mod supervise;
mod term;

use serde_json::{json, Value};
use std::time::Duration;

fn nshards() -> usize {
    std::env::var("VH_JOBS").ok().and_then(|s| s.parse().ok()).unwrap_or_else(|| std::thread::available_parallelism().map(|n| n.get()).unwrap_or(8).min(16))
}

fn engine_of(prop: &str) -> &'static str {
    match prop {
        "C06" | "C07" | "C08" | "C09" | "C13" => "e1",
        "C01" | "C02" | "C03" | "C04" | "C05" | "C10" | "C11" | "C12" | "C14" | "C15" | "C16" | "C17" => "e2",
        _ => "none",
    }
}

fn main() {
    let args: Vec<String> = std::env::args().skip(1).collect();
    if args.is_empty() {
        eprintln!("usage: vh <property> [--tier quick|thorough] | vh replay <file>");
        std::process::exit(2);
    }
    // big stack: both the reference interpreter and the engine recurse
    let child = std::thread::Builder::new().stack_size(1 << 30).spawn(move || real_main(args)).unwrap();
    let code = child.join().unwrap_or(2);
    std::process::exit(code);
}

fn real_main(args: Vec<String>) -> i32 {
    let mut tier = report::tier();
    let mut i = 0;
    let mut pos = vec![];
    while i < args.len() {
        if args[i] == "--tier" && i + 1 < args.len() {
            tier = args[i + 1].clone();
            i += 2;
        } else {
            pos.push(args[i].clone());
            i += 1;
        }
    }
    std::env::set_var("VERIF_TIER", &tier);
    if pos[0] == "replay" {
        return replay(&pos[1]);
    }
    let prop = pos[0].clone();
    if std::env::var("VH_WORKER").is_ok() {
        match engine_of(&prop) {
            "e1" => e1::worker(&tier),
            "e2" => e2::worker(&prop, &tier),
            _ => {}
        }
        return 0;
    }
    match engine_of(&prop) {
        "e1" => run_e1(&prop, &tier),
        "e2" => run_e2(&prop, &tier),
        _ => {
            eprintln!("unknown property {}", prop);
            2
        }
    }
}

fn replay(path: &str) -> i32 {
    let s = match std::fs::read_to_string(path) {
        Ok(s) => s,
        Err(e) => {
            eprintln!("cannot read {}: {}", path, e);
            return 2;
        }
    };
    let v: Value = serde_json::from_str(&s).expect("replay file is JSON");
    let w = &v["witness"];
    println!("replaying {} class {}", v["property"], v["class"]);
    let ok = match w["engine"].as_str() {
        Some("e1") => e1::replay(w),
        Some("e2") => e2::replay(w),
        Some("e3") => {
            println!("list case: {}", w["text"]);
            println!("(re-run ./check C15: the direct list checks are deterministic and take under a second)");
            true
        }
        _ => {
            eprintln!("no replayer for this witness");
            return 2;
        }
    };
    if ok {
        0
    } else {
        1
    }
}

fn run_e1(prop: &str, tier: &str) -> i32 {
    let args = vec![prop.to_string(), "--tier".into(), tier.to_string()];
    let cap = if tier == "thorough" { 3600 } else { 600 };
    let out = supervise::run_sharded(&args, nshards(), Duration::from_secs(30), Duration::from_secs(cap), &[]);
    let tr = *out.stats.get("transitions").unwrap_or(&0);
    let states = *out.distinct.get("states").unwrap_or(&0);
    let coverage = json!({
        "states": states,
        "transitions": tr,
        "traces_validated_against_impl": tr,
        "samples": report::samples(&out, 5),
        "exhaustive": !out.capped,
        "distinct_outcome_classes": out.distinct.get("outcomes"),
        "rule": "state = real substitution set reached by <= d successful real unify calls (exact fingerprint); transition = one ordered pair of the term universe unified by the real code from that state, in both orders, judged against the reference unifier; every transition is an execution of the implementation",
        "bounds": {"tier": tier, "spaces": "full: priors depth 1 over the small universe x all ordered pairs of the full universe in every encoding (canonical, renamed, parsed+renamed); alias: depth 3 (quick) / 4 (thorough) over {$X,$Y,$Z,$_,a,f($Y),[a|$Z]}; func: function terms x partners (C13); thorough adds depth-2 spaces"},
    });
    let verdict = report::Verdict {
        property: prop.to_string(),
        level: "model_checking".into(),
        coverage,
        assumptions: vec![
            "small-scope hypothesis: terms of depth <= 2, three named variables, lists of <= 3 elements".into(),
            "reference unifier (harness/src/refunify.rs) is the oracle; pairs needing an occurs check are counted and not judged".into(),
            "a `$_` nested inside a binding makes success order-dependent in principle; pairs on which the strict and wildcard readings disagree are counted as grey-zone and judged only by the weak clauses".into(),
        ],
    };
    report::finish(verdict, &out)
}

fn run_e2(prop: &str, tier: &str) -> i32 {
    let args = vec![prop.to_string(), "--tier".into(), tier.to_string()];
    let cap = if tier == "thorough" { 3 * 3600 } else { 900 };
    let out = supervise::run_sharded(&args, nshards(), Duration::from_secs(20), Duration::from_secs(cap), &[]);
    let calls = *out.stats.get("next_solution_calls").unwrap_or(&0);
    let hist = *out.stats.get("histories").unwrap_or(&0);
    // C15's direct part: each element sequence is a state, each list built from it a transition
    let seqs = *out.stats.get("sequences").unwrap_or(&0);
    let built: u64 = out.stats.iter().filter(|(k, _)| k.starts_with("built.")).map(|(_, v)| *v).sum();
    let coverage = json!({
        "states": hist + calls + seqs,
        "transitions": calls + built,
        "traces_validated_against_impl": hist,
        "samples": report::samples(&out, 5),
        "exhaustive": !out.capped,
        "distinct_outcome_classes": out.distinct.get("outcomes"),
        "rule": "state = (program, query, number of answers consumed): distinct by construction; transition = one next_solution call on the real engine, judged against the reference interpreter's step (answer up to renaming of unbound variables, text written); histories run to exhaustion plus 3 re-asks",
        "bounds": {"tier": tier, "families": "see harness/src/gen.rs: core (1-2 clauses, and/or trees <= 3 leaves), lists (all clause and goal orders), builtins, cut (<= 4 leaves, 1-3 clauses, caller/sibling wrappers), not, output", "step_budget": e2::BUDGET, "max_answers": e2::MAX_ANSWERS, "reasks": e2::REASKS},
    });
    let verdict = report::Verdict {
        property: prop.to_string(),
        level: "model_checking".into(),
        coverage,
        assumptions: vec![
            "small-scope hypothesis: programs of the enumerated shapes only".into(),
            "reference interpreter (harness/src/refsolve.rs) is the oracle; it is first checked against the repository's own documented answers".into(),
            "programs whose reference search exceeds the step budget, needs an occurs check or reaches behaviour the statements are silent on are counted under skipped.* and not judged".into(),
        ],
    };
    report::finish(verdict, &out)
}
