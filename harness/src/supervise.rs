//! Sharding over worker subprocesses, watchdog, crash / hang attribution.
//!
//! suiron keeps two process-global `static mut`s (the variable-id counter and
//! the stop flag) and prints to the process's stdout, so every engine runs
//! one case at a time per *process*.  Parallelism = N worker processes over
//! disjoint shards (case index mod N).  A worker publishes "I am in case i"
//! through a shared memory word before it touches the implementation, so a
//! worker that dies or stops making progress is attributed to exactly one
//! case, recorded against the property, and the shard resumes at i+1.

use serde_json::{json, Value};
use std::collections::BTreeMap;
use std::fs::{File, OpenOptions};
use std::io::{BufRead, BufReader, Write};
use std::process::{Child, Command, Stdio};
use std::sync::mpsc;
use std::time::{Duration, Instant};

pub const NO_CASE: u64 = u64::MAX;

pub struct Worker {
    pub shard: u64,
    pub nshards: u64,
    pub resume_after: i64,
    pub describe: Option<u64>,
    /// run exactly this case (the supervisor's second opinion on a suspected hang)
    pub only: Option<u64>,
    begins: u64,
    last_idx: Option<u64>,
    prog: *mut u64,
    proto: File,
    pub cap: crate::capture::Capture,
    pub stats: BTreeMap<String, u64>,
    pub sets: BTreeMap<String, std::collections::HashSet<u64>>,
    last_stats: Instant,
}

/// Deterministic 64-bit fingerprint (SipHash with fixed keys).
pub fn fp<H: std::hash::Hash + ?Sized>(h: &H) -> u64 {
    use std::hash::Hasher;
    #[allow(deprecated)]
    let mut s = std::hash::SipHasher::new();
    h.hash(&mut s);
    s.finish()
}

impl Worker {
    /// Called by a worker process.  Environment: VH_SHARD, VH_NSHARDS,
    /// VH_RESUME_AFTER, VH_PROGRESS (path), VH_DESCRIBE.
    pub fn from_env() -> Worker {
        let g = |k: &str| std::env::var(k).ok();
        let shard = g("VH_SHARD").and_then(|s| s.parse().ok()).unwrap_or(0);
        let nshards = g("VH_NSHARDS").and_then(|s| s.parse().ok()).unwrap_or(1);
        let resume_after = g("VH_RESUME_AFTER").and_then(|s| s.parse().ok()).unwrap_or(-1);
        let describe = g("VH_DESCRIBE").and_then(|s| s.parse().ok());
        let only: Option<u64> = g("VH_ONLY").and_then(|s| s.parse().ok());
        let prog = match g("VH_PROGRESS") {
            Some(p) => unsafe {
                let f = OpenOptions::new().read(true).write(true).open(&p).expect("open progress file");
                use std::os::unix::io::AsRawFd;
                let m = libc::mmap(std::ptr::null_mut(), 64, libc::PROT_READ | libc::PROT_WRITE, libc::MAP_SHARED, f.as_raw_fd(), 0);
                assert!(m != libc::MAP_FAILED, "mmap failed");
                m as *mut u64
            },
            None => Box::leak(Box::new([0u64; 8])).as_mut_ptr(),
        };
        let (proto, cap) = crate::capture::init();
        // Panics of the subject are caught and reported as records; keep
        // stderr quiet.
        std::panic::set_hook(Box::new(|_| {}));
        Worker { shard, nshards, resume_after, describe, only, begins: 0, last_idx: None, prog, proto, cap, stats: BTreeMap::new(), sets: BTreeMap::new(), last_stats: Instant::now() }
    }

    pub fn mine(&self, idx: u64) -> bool {
        if let Some(d) = self.describe {
            return idx == d;
        }
        if let Some(o) = self.only {
            return idx == o;
        }
        idx % self.nshards == self.shard && (idx as i64) > self.resume_after
    }

    /// Publish the case about to be executed.
    pub fn begin(&mut self, idx: u64) {
        // Memory hygiene: the engine under test leaks (reference cycles between solution nodes that
        // a panic or an abandoned search leaves behind), and a thorough run executes 10^7 histories in
        // one process.  A worker that has grown beyond the limit hands over to a fresh process
        // between two cases: nothing is lost and nothing is counted twice.
        self.begins += 1;
        if self.begins % 512 == 0 && self.describe.is_none() && self.only.is_none() {
            if let Some(last) = self.last_idx {
                if rss_mb() > 2500 {
                    unsafe {
                        std::ptr::write_volatile(self.prog, NO_CASE);
                    }
                    self.flush_stats();
                    self.write_sets();
                    self.emit(json!({"t": "recycle", "after": last}));
                    std::process::exit(0);
                }
            }
        }
        self.last_idx = Some(idx);
        unsafe {
            std::ptr::write_volatile(self.prog, idx);
            std::ptr::write_volatile(self.prog.add(1), std::ptr::read_volatile(self.prog.add(1)) + 1);
        }
        if self.last_stats.elapsed() > Duration::from_millis(500) {
            self.flush_stats();
        }
    }
    /// Heartbeat inside a long case (sub-steps).
    pub fn beat(&mut self) {
        unsafe {
            std::ptr::write_volatile(self.prog.add(1), std::ptr::read_volatile(self.prog.add(1)) + 1);
        }
    }

    pub fn count(&mut self, key: &str, n: u64) {
        *self.stats.entry(key.to_string()).or_insert(0) += n;
    }

    /// Record a fingerprint in a named set; the supervisor reports the size
    /// of the union over all workers (distinct states / outcomes).
    pub fn distinct<H: std::hash::Hash + ?Sized>(&mut self, set: &str, h: &H) {
        let v = fp(h);
        self.sets.entry(set.to_string()).or_default().insert(v);
    }

    fn write_sets(&mut self) {
        if let Ok(dir) = std::env::var("VH_SCRATCH_RUN") {
            for (name, set) in &self.sets {
                let p = std::path::Path::new(&dir).join(format!("set.{}.{}.{}.u64", name, self.shard, std::process::id()));
                let mut bytes = Vec::with_capacity(set.len() * 8);
                for h in set {
                    bytes.extend_from_slice(&h.to_le_bytes());
                }
                let _ = std::fs::write(p, bytes);
            }
        }
    }

    pub fn emit(&mut self, v: Value) {
        let mut s = v.to_string();
        s.push('\n');
        let _ = self.proto.write_all(s.as_bytes());
    }

    pub fn flush_stats(&mut self) {
        let v = json!({"t": "stats", "c": self.stats});
        self.emit(v);
        self.last_stats = Instant::now();
    }

    pub fn done(&mut self) {
        unsafe {
            std::ptr::write_volatile(self.prog, NO_CASE);
        }
        self.flush_stats();
        self.write_sets();
        self.emit(json!({"t": "done"}));
    }
}

pub struct Crash {
    pub shard: usize,
    pub case: u64,
    pub kind: String, // "crash" | "hang"
    pub detail: String,
    pub description: Value,
}

pub struct Outcome {
    pub records: Vec<Value>,
    pub stats: BTreeMap<String, u64>,
    pub crashes: Vec<Crash>,
    pub capped: bool,
    pub wall_s: f64,
    pub machinery_errors: Vec<String>,
    /// size of the union, over all workers, of each named fingerprint set
    pub distinct: BTreeMap<String, u64>,
}

impl Outcome {
    /// Merge the outcome of a second engine run for the same property.
    pub fn absorb(&mut self, o: Outcome) {
        self.records.extend(o.records);
        merge(&mut self.stats, &o.stats);
        self.crashes.extend(o.crashes);
        self.capped |= o.capped;
        self.wall_s += o.wall_s;
        self.machinery_errors.extend(o.machinery_errors);
        for (k, v) in o.distinct {
            *self.distinct.entry(k).or_insert(0) += v;
        }
    }
}

struct Slot {
    child: Child,
    rx: mpsc::Receiver<String>,
    prog_path: std::path::PathBuf,
    prog: *const u64,
    last_beat: u64,
    last_change: Instant,
    /// CPU time (user+system, seconds) the worker had used when it last made progress
    cpu_at_change: f64,
    cur_stats: BTreeMap<String, u64>,
    done: bool,
    /// the worker asked to be replaced by a fresh process after this case
    recycle_after: Option<i64>,
    finished: bool,
    resume_after: i64,
    stderr_tail: std::sync::Arc<std::sync::Mutex<String>>,
}

pub fn scratch_dir() -> std::path::PathBuf {
    let base = std::env::var("VH_SCRATCH").unwrap_or_else(|_| {
        let exe = std::env::current_exe().unwrap();
        exe.parent().unwrap().join("scratch").to_string_lossy().into_owned()
    });
    let p = std::path::PathBuf::from(base).join(format!("run-{}", std::process::id()));
    std::fs::create_dir_all(&p).expect("create scratch dir");
    p
}

fn spawn(args: &[String], shard: usize, nshards: usize, resume_after: i64, dir: &std::path::Path, extra_env: &[(String, String)]) -> Slot {
    let prog_path = dir.join(format!("progress-{}", shard));
    {
        let mut f = File::create(&prog_path).expect("create progress file");
        let mut init = vec![0u8; 64];
        init[..8].copy_from_slice(&NO_CASE.to_le_bytes());
        f.write_all(&init).unwrap();
    }
    let f = OpenOptions::new().read(true).write(true).open(&prog_path).unwrap();
    let prog = unsafe {
        use std::os::unix::io::AsRawFd;
        let m = libc::mmap(std::ptr::null_mut(), 64, libc::PROT_READ, libc::MAP_SHARED, f.as_raw_fd(), 0);
        assert!(m != libc::MAP_FAILED);
        m as *const u64
    };
    let exe = std::env::current_exe().unwrap();
    let mut cmd = Command::new(exe);
    cmd.args(args)
        .env("VH_WORKER", "1")
        .env("VH_SHARD", shard.to_string())
        .env("VH_NSHARDS", nshards.to_string())
        .env("VH_RESUME_AFTER", resume_after.to_string())
        .env("VH_PROGRESS", &prog_path)
        .env("VH_SCRATCH_RUN", dir)
        .stdin(Stdio::null())
        .stdout(Stdio::piped())
        .stderr(Stdio::piped());
    for (k, v) in extra_env {
        cmd.env(k, v);
    }
    let mut child = cmd.spawn().expect("spawn worker");
    let out = child.stdout.take().unwrap();
    let (tx, rx) = mpsc::channel();
    std::thread::spawn(move || {
        let r = BufReader::new(out);
        for line in r.lines() {
            match line {
                Ok(l) => {
                    if tx.send(l).is_err() {
                        break;
                    }
                }
                Err(_) => break,
            }
        }
    });
    let err = child.stderr.take().unwrap();
    let stderr_tail = std::sync::Arc::new(std::sync::Mutex::new(String::new()));
    let st2 = stderr_tail.clone();
    std::thread::spawn(move || {
        let r = BufReader::new(err);
        for line in r.lines().flatten() {
            let mut g = st2.lock().unwrap();
            g.push_str(&line);
            g.push('\n');
            if g.len() > 4000 {
                let cut = g.len() - 2000;
                *g = g[cut..].to_string();
            }
        }
    });
    Slot {
        child,
        rx,
        prog_path,
        prog,
        last_beat: 0,
        last_change: Instant::now(),
        cpu_at_change: 0.0,
        cur_stats: BTreeMap::new(),
        done: false,
        recycle_after: None,
        finished: false,
        resume_after,
        stderr_tail,
    }
}

/// Resident set size of this process in MB.
fn rss_mb() -> u64 {
    std::fs::read_to_string("/proc/self/statm").ok().and_then(|s| s.split_whitespace().nth(1).and_then(|x| x.parse::<u64>().ok())).map_or(0, |pages| pages * 4096 / (1024 * 1024))
}

/// user + system CPU time of a process (and its threads) in seconds, from /proc.
fn cpu_seconds(pid: u32) -> f64 {
    let Ok(s) = std::fs::read_to_string(format!("/proc/{}/stat", pid)) else { return 0.0 };
    // fields after the closing parenthesis of the command name
    let Some(rest) = s.rfind(')').map(|i| &s[i + 1..]) else { return 0.0 };
    let f: Vec<&str> = rest.split_whitespace().collect();
    // utime = field 14, stime = field 15 of the full line; `rest` starts at field 3
    let ut: f64 = f.get(11).and_then(|x| x.parse().ok()).unwrap_or(0.0);
    let st: f64 = f.get(12).and_then(|x| x.parse().ok()).unwrap_or(0.0);
    (ut + st) / 100.0
}

/// Run one case on its own in a fresh worker.  Some(protocol lines) if it finished; None if it
/// again used more than twice the CPU limit (counted from the moment the case is reached) or ten
/// times the wall limit, or died.
fn rerun_alone(args: &[String], idx: u64, case_timeout: Duration, dir: &std::path::Path, extra_env: &[(String, String)]) -> Option<Vec<String>> {
    let exe = std::env::current_exe().unwrap();
    let out_path = dir.join(format!("rerun-{}.out", idx));
    let prog_path = dir.join(format!("progress-rerun-{}", idx));
    {
        let mut pf = File::create(&prog_path).ok()?;
        let mut init = vec![0u8; 64];
        init[..8].copy_from_slice(&NO_CASE.to_le_bytes());
        pf.write_all(&init).ok()?;
    }
    let pf = OpenOptions::new().read(true).write(true).open(&prog_path).ok()?;
    let prog = unsafe {
        use std::os::unix::io::AsRawFd;
        let m = libc::mmap(std::ptr::null_mut(), 64, libc::PROT_READ, libc::MAP_SHARED, pf.as_raw_fd(), 0);
        if m == libc::MAP_FAILED {
            return None;
        }
        m as *const u64
    };
    let f = File::create(&out_path).ok()?;
    let mut cmd = Command::new(exe);
    cmd.args(args).env("VH_WORKER", "1").env("VH_ONLY", idx.to_string()).env("VH_SCRATCH_RUN", dir).env("VH_PROGRESS", &prog_path).stdin(Stdio::null()).stdout(Stdio::from(f)).stderr(Stdio::null());
    for (k, v) in extra_env {
        cmd.env(k, v);
    }
    let mut child = cmd.spawn().ok()?;
    let mut reached: Option<(Instant, f64)> = None;
    let start = Instant::now();
    let ok = loop {
        match child.try_wait() {
            Ok(Some(st)) => break st.success(),
            Ok(None) => {}
            Err(_) => break false,
        }
        let at = unsafe { std::ptr::read_volatile(prog) };
        if reached.is_none() && at == idx {
            reached = Some((Instant::now(), cpu_seconds(child.id())));
        }
        let over = match reached {
            Some((t, c)) => cpu_seconds(child.id()) - c > case_timeout.as_secs_f64() * 2.0 || t.elapsed() > case_timeout * 10,
            // enumerating up to the case: bounded by the time the whole run may take
            None => start.elapsed() > Duration::from_secs(1800),
        };
        if over {
            let _ = child.kill();
            let _ = child.wait();
            break false;
        }
        std::thread::sleep(Duration::from_millis(50));
    };
    unsafe {
        libc::munmap(prog as *mut libc::c_void, 64);
    }
    let text = std::fs::read_to_string(&out_path).unwrap_or_default();
    let _ = std::fs::remove_file(&out_path);
    let _ = std::fs::remove_file(&prog_path);
    if !ok || !text.lines().any(|l| l.contains("\"t\":\"done\"")) {
        return None;
    }
    Some(text.lines().map(|l| l.to_string()).collect())
}

fn describe(args: &[String], idx: u64, extra_env: &[(String, String)]) -> Value {
    let exe = std::env::current_exe().unwrap();
    let mut cmd = Command::new(exe);
    cmd.args(args).env("VH_WORKER", "1").env("VH_DESCRIBE", idx.to_string()).stdin(Stdio::null()).stderr(Stdio::null());
    for (k, v) in extra_env {
        cmd.env(k, v);
    }
    match cmd.output() {
        Ok(o) => {
            for l in String::from_utf8_lossy(&o.stdout).lines() {
                if let Ok(v) = serde_json::from_str::<Value>(l) {
                    if v["t"] == "describe" {
                        return v;
                    }
                }
            }
            json!({"t":"describe","error":"no description produced"})
        }
        Err(e) => json!({"t":"describe","error": e.to_string()}),
    }
}

/// Run `args` as `nshards` worker processes until all are done.
pub fn run_sharded(args: &[String], nshards: usize, case_timeout: Duration, wall_cap: Duration, extra_env: &[(String, String)]) -> Outcome {
    let start = Instant::now();
    let dir = scratch_dir();
    let mut slots: Vec<Slot> = (0..nshards).map(|s| spawn(args, s, nshards, -1, &dir, extra_env)).collect();
    let mut out = Outcome { records: vec![], stats: BTreeMap::new(), crashes: vec![], capped: false, wall_s: 0.0, machinery_errors: vec![], distinct: BTreeMap::new() };
    let max_crashes = 200usize;
    let mut confirmed_hangs = 0usize;

    loop {
        let mut all_finished = true;
        for (si, slot) in slots.iter_mut().enumerate() {
            if slot.finished {
                continue;
            }
            all_finished = false;
            // drain records
            while let Ok(l) = slot.rx.try_recv() {
                handle_line(&l, slot, &mut out);
            }
            // hang detection
            let (case, beat) = unsafe { (std::ptr::read_volatile(slot.prog), std::ptr::read_volatile(slot.prog.add(1))) };
            if beat != slot.last_beat {
                slot.last_beat = beat;
                slot.last_change = Instant::now();
                slot.cpu_at_change = cpu_seconds(slot.child.id());
            }
            let mut died: Option<String> = None;
            match slot.child.try_wait() {
                Ok(Some(status)) => {
                    // drain the rest
                    std::thread::sleep(Duration::from_millis(20));
                    while let Ok(l) = slot.rx.try_recv() {
                        handle_line(&l, slot, &mut out);
                    }
                    if slot.done {
                        merge(&mut out.stats, &slot.cur_stats);
                        slot.finished = true;
                        let _ = std::fs::remove_file(&slot.prog_path);
                        continue;
                    }
                    if let Some(after) = slot.recycle_after {
                        merge(&mut out.stats, &slot.cur_stats);
                        *out.stats.entry("supervisor.workers_recycled_for_memory".into()).or_insert(0) += 1;
                        let _ = std::fs::remove_file(&slot.prog_path);
                        *slot = spawn(args, si, nshards, after, &dir, extra_env);
                        continue;
                    }
                    died = Some(format!("worker exited with {} ; stderr tail: {}", status, slot.stderr_tail.lock().unwrap().trim()));
                }
                Ok(None) => {
                    // A hang is judged on the worker's own CPU time, so that a machine under load (a
                    // starved worker) is not mistaken for a looping one; a worker that neither progresses
                    // nor burns CPU (blocked for good) is given ten times the limit of wall time.
                    let stuck_wall = slot.last_change.elapsed();
                    let stuck_cpu = cpu_seconds(slot.child.id()) - slot.cpu_at_change;
                    if case != NO_CASE && stuck_wall > case_timeout && (stuck_cpu > case_timeout.as_secs_f64() || stuck_wall > case_timeout * 10) {
                        let _ = slot.child.kill();
                        let _ = slot.child.wait();
                        while let Ok(l) = slot.rx.try_recv() {
                            handle_line(&l, slot, &mut out);
                        }
                        died = Some(format!("HANG: no progress for {:?}", case_timeout));
                    }
                }
                Err(e) => {
                    died = Some(format!("wait error {}", e));
                }
            }
            if let Some(detail) = died {
                merge(&mut out.stats, &slot.cur_stats);
                let case_now = unsafe { std::ptr::read_volatile(slot.prog) };
                if case_now == NO_CASE || (case_now as i64) <= slot.resume_after {
                    out.machinery_errors.push(format!("shard {} died outside any case: {}", si, detail));
                    slot.finished = true;
                    continue;
                }
                let kind = if detail.starts_with("HANG") { "hang" } else { "crash" };
                // A suspected hang is only believed if the case, run again on its own in a fresh
                // process, again fails to finish (twice the CPU limit, or ten times the wall limit):
                // on an overloaded machine a worker can lose its time slice for longer than any
                // fixed limit, and that is not a property of the code under test.
                // (the same second opinion for a worker that was killed from outside - SIGKILL is what
                // the kernel's out-of-memory killer sends; the engine cannot send it to itself)
                if (kind == "hang" || detail.contains("signal: 9")) && confirmed_hangs < 3 {
                    let second = rerun_alone(args, case_now, case_timeout, &dir, extra_env);
                    if second.is_none() {
                        confirmed_hangs += 1;
                    }
                    if let Some(lines) = second {
                        for l in lines {
                            match serde_json::from_str::<Value>(&l) {
                                Ok(v) => match v["t"].as_str() {
                                    Some("stats") => {
                                        if let Some(o) = v["c"].as_object() {
                                            for (k, n) in o {
                                                *out.stats.entry(k.clone()).or_insert(0) += n.as_u64().unwrap_or(0);
                                            }
                                        }
                                    }
                                    Some("done") => {}
                                    _ => out.records.push(v),
                                },
                                Err(_) => {}
                            }
                        }
                        *out.stats.entry("supervisor.hang_suspects_cleared_by_rerun".into()).or_insert(0) += 1;
                        let _ = std::fs::remove_file(&slot.prog_path);
                        *slot = spawn(args, si, nshards, case_now as i64, &dir, extra_env);
                        continue;
                    }
                }
                let description = describe(args, case_now, extra_env);
                out.crashes.push(Crash { shard: si, case: case_now, kind: kind.into(), detail, description });
                if out.crashes.len() >= max_crashes {
                    out.machinery_errors.push("too many crashed cases; giving up on this shard".into());
                    slot.finished = true;
                    continue;
                }
                let _ = std::fs::remove_file(&slot.prog_path);
                *slot = spawn(args, si, nshards, case_now as i64, &dir, extra_env);
            }
        }
        if all_finished {
            break;
        }
        if start.elapsed() > wall_cap {
            out.capped = true;
            for slot in slots.iter_mut() {
                if !slot.finished {
                    let _ = slot.child.kill();
                    let _ = slot.child.wait();
                    while let Ok(l) = slot.rx.try_recv() {
                        handle_line(&l, slot, &mut out);
                    }
                    merge(&mut out.stats, &slot.cur_stats);
                    slot.finished = true;
                }
            }
            break;
        }
        std::thread::sleep(Duration::from_millis(20));
    }
    // union the fingerprint sets written by the workers
    let mut unions: BTreeMap<String, std::collections::HashSet<u64>> = BTreeMap::new();
    if let Ok(rd) = std::fs::read_dir(&dir) {
        for e in rd.flatten() {
            let name = e.file_name().to_string_lossy().into_owned();
            if let Some(rest) = name.strip_prefix("set.") {
                let set_name = rest.split('.').next().unwrap_or("").to_string();
                if let Ok(bytes) = std::fs::read(e.path()) {
                    let u = unions.entry(set_name).or_default();
                    for c in bytes.chunks_exact(8) {
                        u.insert(u64::from_le_bytes(c.try_into().unwrap()));
                    }
                }
            }
        }
    }
    for (k, v) in unions {
        out.distinct.insert(k, v.len() as u64);
    }
    let _ = std::fs::remove_dir_all(&dir);
    out.wall_s = start.elapsed().as_secs_f64();
    out
}

fn merge(total: &mut BTreeMap<String, u64>, add: &BTreeMap<String, u64>) {
    for (k, v) in add {
        *total.entry(k.clone()).or_insert(0) += v;
    }
}

fn handle_line(l: &str, slot: &mut Slot, out: &mut Outcome) {
    match serde_json::from_str::<Value>(l) {
        Ok(v) => match v["t"].as_str() {
            Some("stats") => {
                let mut m = BTreeMap::new();
                if let Some(o) = v["c"].as_object() {
                    for (k, n) in o {
                        m.insert(k.clone(), n.as_u64().unwrap_or(0));
                    }
                }
                slot.cur_stats = m;
            }
            Some("done") => slot.done = true,
            Some("recycle") => slot.recycle_after = v["after"].as_i64(),
            _ => out.records.push(v),
        },
        Err(_) => out.machinery_errors.push(format!("unparsable worker line: {}", l)),
    }
}
