//! Reference interpreter: depth-first, left-to-right, clause-order resolution
//! over the harness AST, written in continuation-passing style.  It recomputes
//! everything from scratch (no resume state, no flags); see DESIGN §1.3 for the
//! meaning given to cut.

use crate::prog::*;
use crate::refbuiltins as rb;
use crate::refunify::{resolve, unify, Sub, UErr};
use crate::term::T;

#[derive(Clone, Copy, Debug, PartialEq)]
pub enum R {
    /// exhausted: the caller may try its next alternative
    Next,
    /// a cut ran in frame n: unwind every loop of that frame
    Cut(usize),
    /// private unwinding used by not(G)
    Unwind(u64),
    /// stop everything (budget, outside-claim)
    Halt,
}

#[derive(Default, Clone, Debug)]
pub struct RefStats {
    pub goal_entries: u64,
    pub cut_executed: u64,
    /// a cut was caught by its clause loop while later clauses were still untried
    pub cut_pruned_clauses: u64,
    /// a cut unwound a conjunction/disjunction/clause loop of its frame after the
    /// call had delivered an answer (answers beyond the first suppressed)
    pub cut_after_answer: u64,
    pub not_succeeded: u64,
    pub not_failed: u64,
    pub outputs: u64,
    pub max_depth: usize,
    pub head_unifications: u64,
}

pub struct Ref<'p> {
    prog: &'p Program,
    next_var: usize,
    budget: u64,
    depth_limit: usize,
    /// per call frame: has a cut run in it, and the frame of its caller
    frames: Vec<(bool, usize)>,
    /// scripted answers to the choice points (see `choose`); missing = retry
    script: Vec<bool>,
    pub choice_log: Vec<bool>,
    token: u64,
    pub out: String,
    pub halted: Option<String>,
    pub stats: RefStats,
}

pub struct RefResult {
    /// one entry per `next_solution` call: the answer (the query resolved) or
    /// None for "no more", and the text written during that call
    pub steps: Vec<(Option<T>, String)>,
    /// Some(reason): the case is not judged (budget, statement silent)
    pub skipped: Option<String>,
    pub stats: RefStats,
}

type K<'a, 'p> = &'a mut dyn FnMut(&mut Ref<'p>, &Sub) -> R;

impl<'p> Ref<'p> {
    pub fn new(prog: &'p Program, budget: u64) -> Ref<'p> {
        Ref { prog, next_var: 100_000, budget, depth_limit: 400, frames: vec![(false, 0)], script: vec![], choice_log: vec![], token: 0, out: String::new(), halted: None, stats: RefStats::default() }
    }

    fn halt(&mut self, why: &str) -> R {
        if self.halted.is_none() {
            self.halted = Some(why.to_string());
        }
        R::Halt
    }

    /// Innermost frame, from `f` outwards along the call nesting, in which a
    /// cut has run.
    fn cut_ancestor(&self, mut f: usize) -> Option<usize> {
        loop {
            if self.frames[f].0 {
                return Some(f);
            }
            if f == 0 {
                return None;
            }
            f = self.frames[f].1;
        }
    }

    /// C02 leaves open whether a goal to the right of an executed cut may be
    /// re-entered for another solution while the call's answer is still being
    /// derived (the engine refuses when the goal's node was an ancestor of the
    /// cut, e.g. after leaving a parenthesised group).  Every such re-entry is
    /// a choice point: `true` = retry, `false` = the call fails as a whole.
    /// The set of all scripts gives the set of acceptable behaviours.
    fn choose(&mut self) -> bool {
        let i = self.choice_log.len();
        let c = if i < self.script.len() { self.script[i] } else { true };
        self.choice_log.push(c);
        c
    }

    fn rename(&mut self, c: &Clause) -> Clause {
        let mut map: Vec<(String, usize)> = vec![];
        let mut nv = self.next_var;
        let mut f = |t: &T| -> T {
            t.map_vars(&mut |_, name| {
                if let Some((_, id)) = map.iter().find(|(n, _)| n == name) {
                    T::Var(*id, name.to_string())
                } else {
                    nv += 1;
                    map.push((name.to_string(), nv));
                    T::Var(nv, name.to_string())
                }
            })
        };
        let c2 = c.map_terms(&mut f);
        self.next_var = nv;
        c2
    }

    fn unify_goal(&mut self, a: &T, b: &T, s: &Sub) -> Result<Option<Sub>, R> {
        let mut s2 = s.clone();
        match unify(a, b, &mut s2) {
            Ok(()) => Ok(Some(s2)),
            Err(UErr::Fail) => Ok(None),
            Err(UErr::Occurs) => Err(self.halt("outside: unification needs an occurs check")),
            Err(UErr::Outside(r)) => Err(self.halt(&format!("outside: {}", r))),
        }
    }

    pub fn solve(&mut self, g: &G, s: &Sub, frame: usize, depth: usize, k: K<'_, 'p>) -> R {
        self.stats.goal_entries += 1;
        if self.stats.goal_entries > self.budget {
            return self.halt("budget: step budget exceeded");
        }
        if depth > self.depth_limit {
            return self.halt("budget: depth limit exceeded");
        }
        if depth > self.stats.max_depth {
            self.stats.max_depth = depth;
        }
        match g {
            G::Call(t) => {
                let (f, n) = match t {
                    T::Cplx(f, a) => (f.clone(), a.len()),
                    _ => return self.halt("outside: call of a non-complex term"),
                };
                let fid = self.frames.len();
                self.frames.push((false, frame));
                let produced = std::cell::Cell::new(false);
                let prog = self.prog;
                let cands: Vec<&Clause> = prog.iter().filter(|c| matches!(&c.head, T::Cplx(g, a) if *g == f && a.len() == n)).collect();
                for (ci, c) in cands.iter().enumerate() {
                    if produced.get() {
                        if let Some(fc) = self.cut_ancestor(frame) {
                            if !self.choose() {
                                return R::Cut(fc);
                            }
                        }
                    }
                    let c2 = self.rename(c);
                    self.stats.head_unifications += 1;
                    let s2 = match self.unify_goal(&c2.head, t, s) {
                        Ok(Some(s2)) => s2,
                        Ok(None) => continue,
                        Err(r) => return r,
                    };
                    let mut k2 = |me: &mut Ref<'p>, s3: &Sub| -> R {
                        produced.set(true);
                        let r = k(me, s3);
                        if r == R::Next && me.frames[fid].0 {
                            me.stats.cut_after_answer += 1;
                            R::Cut(fid)
                        } else {
                            r
                        }
                    };
                    let r = match &c2.body {
                        None => k2(self, &s2),
                        Some(b) => self.solve(b, &s2, fid, depth + 1, &mut k2),
                    };
                    match r {
                        R::Next => {}
                        R::Cut(x) if x == fid => {
                            if ci + 1 < cands.len() {
                                self.stats.cut_pruned_clauses += 1;
                            }
                            return R::Next;
                        }
                        other => return other,
                    }
                }
                R::Next
            }
            G::And(gs) => self.solve_seq(gs, 0, s, frame, depth, k),
            G::Or(gs) => {
                let produced = std::cell::Cell::new(false);
                for g in gs {
                    if produced.get() {
                        if let Some(fc) = self.cut_ancestor(frame) {
                            if !self.choose() {
                                return R::Cut(fc);
                            }
                        }
                    }
                    let mut k2 = |me: &mut Ref<'p>, s2: &Sub| -> R {
                        produced.set(true);
                        k(me, s2)
                    };
                    match self.solve(g, s, frame, depth, &mut k2) {
                        R::Next => {}
                        other => return other,
                    }
                }
                R::Next
            }
            G::Not(g) => {
                if g.has_cut() {
                    return self.halt("outside: cut inside not");
                }
                self.token += 1;
                let tok = self.token;
                let mut found = |_: &mut Ref<'p>, _: &Sub| R::Unwind(tok);
                match self.solve(g, s, frame, depth, &mut found) {
                    R::Unwind(t) if t == tok => {
                        self.stats.not_failed += 1;
                        R::Next
                    }
                    R::Next => {
                        self.stats.not_succeeded += 1;
                        k(self, s)
                    }
                    R::Cut(_) => self.halt("outside: cut inside not"),
                    other => other,
                }
            }
            G::Time(g) => {
                // time(G): G's first solution only (the node answers once); the elapsed time is
                // written after the attempt, whether or not it succeeded
                if g.has_cut() {
                    return self.halt("outside: cut inside time");
                }
                self.token += 1;
                let tok = self.token;
                let first: std::cell::RefCell<Option<Sub>> = std::cell::RefCell::new(None);
                let mut found = |_: &mut Ref<'p>, s1: &Sub| {
                    *first.borrow_mut() = Some(s1.clone());
                    R::Unwind(tok)
                };
                let r = self.solve(g, s, frame, depth, &mut found);
                match r {
                    R::Unwind(t) if t == tok => {
                        self.out.push(rb::TIMING);
                        self.stats.outputs += 1;
                        let s1 = first.borrow_mut().take().unwrap();
                        k(self, &s1)
                    }
                    R::Next => {
                        self.out.push(rb::TIMING);
                        self.stats.outputs += 1;
                        R::Next
                    }
                    R::Cut(_) => self.halt("outside: cut inside time"),
                    other => other,
                }
            }
            G::Cut => {
                self.frames[frame].0 = true;
                self.stats.cut_executed += 1;
                match k(self, s) {
                    R::Next => R::Cut(frame),
                    other => other,
                }
            }
            G::Fail => R::Next,
            G::Nl => {
                self.out.push('\n');
                self.stats.outputs += 1;
                k(self, s)
            }
            G::Print(a) => match rb::print_text(a, s) {
                Ok(t) => {
                    self.out.push_str(&t);
                    self.stats.outputs += 1;
                    k(self, s)
                }
                Err(r) => self.halt(&format!("outside: {}", r)),
            },
            G::PrintList(a) => match rb::print_list_text(a, s) {
                Ok(t) => {
                    self.out.push_str(&t);
                    self.stats.outputs += 1;
                    k(self, s)
                }
                Err(r) => self.halt(&format!("outside: {}", r)),
            },
            G::Unify(a, b) => match self.unify_goal(a, b, s) {
                Ok(Some(s2)) => k(self, &s2),
                Ok(None) => R::Next,
                Err(r) => r,
            },
            G::Cmp(rel, a, b) => {
                if rb::compare(*rel, a, b, s) {
                    k(self, s)
                } else {
                    R::Next
                }
            }
            G::Bip(name, args) => {
                let value = match name.as_str() {
                    "append" => {
                        if args.len() < 2 {
                            return self.halt("outside: append with < 2 arguments");
                        }
                        rb::append_value(&args[..args.len() - 1], s)
                    }
                    "count" => {
                        if args.len() != 2 {
                            return self.halt("outside: count arity");
                        }
                        rb::count_value(&args[0], s)
                    }
                    "include" | "exclude" => {
                        if args.len() != 3 {
                            return self.halt("outside: filter arity");
                        }
                        rb::filter_value(&args[0], &args[1], s, name == "include")
                    }
                    "functor" => {
                        return match rb::functor_goal(args, s) {
                            Ok(Some(s2)) => k(self, &s2),
                            Ok(None) => R::Next,
                            Err(r) => self.halt(&format!("outside: {}", r)),
                        }
                    }
                    _ => return self.halt("outside: unknown built-in"),
                };
                match value {
                    Err(r) => self.halt(&format!("outside: {}", r)),
                    Ok(v) => {
                        let out_arg = &args[args.len() - 1];
                        match self.unify_goal(out_arg, &v, s) {
                            Ok(Some(s2)) => k(self, &s2),
                            Ok(None) => R::Next,
                            Err(r) => r,
                        }
                    }
                }
            }
        }
    }

    fn solve_seq(&mut self, gs: &[G], i: usize, s: &Sub, frame: usize, depth: usize, k: K<'_, 'p>) -> R {
        if i == gs.len() {
            return k(self, s);
        }
        let mut k2 = |me: &mut Ref<'p>, s2: &Sub| -> R { me.solve_seq(gs, i + 1, s2, frame, depth, &mut *k) };
        self.solve(&gs[i], s, frame, depth, &mut k2)
    }
}

/// Run `query` (a complex term whose variables carry the ids the caller chose)
/// to exhaustion.
pub fn run(prog: &Program, query: &T, budget: u64, max_answers: usize) -> RefResult {
    run_script(prog, query, budget, max_answers, &[]).0
}

/// All behaviours C02 accepts for this history (first = every re-entry to the
/// right of a cut retried).  `None` if more than `max_runs` scripts would be
/// needed.
pub fn run_variants(prog: &Program, query: &T, budget: u64, max_answers: usize, max_runs: usize) -> Option<Vec<RefResult>> {
    let mut out: Vec<RefResult> = vec![];
    let mut stack: Vec<Vec<bool>> = vec![vec![]];
    let mut runs = 0;
    while let Some(script) = stack.pop() {
        runs += 1;
        if runs > max_runs {
            return None;
        }
        let (res, log) = run_script(prog, query, budget, max_answers, &script);
        for i in (script.len()..log.len()).rev() {
            if log[i] {
                let mut s2 = log[..i].to_vec();
                s2.push(false);
                stack.push(s2);
            }
        }
        let dup = out.iter().any(|o| o.steps == res.steps && o.skipped == res.skipped);
        if !dup {
            out.push(res);
        }
        if runs == 1 && out[0].skipped.is_some() {
            break;
        }
    }
    Some(out)
}

pub fn run_script(prog: &Program, query: &T, budget: u64, max_answers: usize, script: &[bool]) -> (RefResult, Vec<bool>) {
    let mut r = Ref::new(prog, budget);
    r.script = script.to_vec();
    let mut steps: Vec<(Option<T>, String)> = vec![];
    let mut too_many = false;
    let goal = G::Call(query.clone());
    let s0 = Sub::new();
    let res = {
        let steps_ref = &mut steps;
        let too_many_ref = &mut too_many;
        let mut top = |me: &mut Ref, s: &Sub| -> R {
            let out = std::mem::take(&mut me.out);
            steps_ref.push((Some(resolve(query, s)), out));
            if steps_ref.len() > max_answers {
                *too_many_ref = true;
                return R::Halt;
            }
            R::Next
        };
        r.solve(&goal, &s0, 0, 0, &mut top)
    };
    let skipped = if too_many {
        Some("budget: more answers than the cap".to_string())
    } else if let Some(h) = r.halted.clone() {
        Some(h)
    } else {
        match res {
            R::Next => None,
            other => Some(format!("oracle: unexpected top-level result {:?}", other)),
        }
    };
    let out = std::mem::take(&mut r.out);
    steps.push((None, out));
    let log = r.choice_log.clone();
    (RefResult { steps, skipped, stats: r.stats.clone() }, log)
}
