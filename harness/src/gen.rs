//! Bounded-exhaustive program generators for E2 (simplest first).

use crate::prog::*;
use crate::refbuiltins::Rel;
use crate::term::*;

pub struct Case {
    pub family: &'static str,
    pub prog: Program,
    pub queries: Vec<T>,
}

#[derive(Clone, Copy, PartialEq)]
enum Kind {
    And,
    Or,
}

/// All and/or trees with exactly `n` leaves (operators alternate; operands of
/// an operator are leaves or trees of the other kind).
pub fn trees(leaves: &[G], n: usize) -> Vec<G> {
    if n == 1 {
        return leaves.to_vec();
    }
    let mut v = gen_kind(leaves, n, Kind::And);
    v.extend(gen_kind(leaves, n, Kind::Or));
    v
}

fn compositions(n: usize) -> Vec<Vec<usize>> {
    // ordered compositions of n into >= 2 positive parts
    fn go(n: usize, cur: &mut Vec<usize>, out: &mut Vec<Vec<usize>>) {
        if n == 0 {
            if cur.len() >= 2 {
                out.push(cur.clone());
            }
            return;
        }
        for p in 1..=n {
            cur.push(p);
            go(n - p, cur, out);
            cur.pop();
        }
    }
    let mut out = vec![];
    go(n, &mut vec![], &mut out);
    out
}

fn gen_kind(leaves: &[G], n: usize, kind: Kind) -> Vec<G> {
    let other = if kind == Kind::And { Kind::Or } else { Kind::And };
    let mut out = vec![];
    for comp in compositions(n) {
        let parts: Vec<Vec<G>> = comp.iter().map(|&p| if p == 1 { leaves.to_vec() } else { gen_kind(leaves, p, other) }).collect();
        let mut idx = vec![0usize; parts.len()];
        'outer: loop {
            let ops: Vec<G> = idx.iter().enumerate().map(|(i, &j)| parts[i][j].clone()).collect();
            out.push(if kind == Kind::And { G::And(ops) } else { G::Or(ops) });
            for i in (0..idx.len()).rev() {
                idx[i] += 1;
                if idx[i] < parts[i].len() {
                    continue 'outer;
                }
                idx[i] = 0;
            }
            break;
        }
    }
    out
}

pub fn bodies_upto(leaves: &[G], n: usize) -> Vec<G> {
    let mut v = vec![];
    for k in 1..=n {
        v.extend(trees(leaves, k));
    }
    v
}

fn a() -> T {
    atom("a")
}
fn b() -> T {
    atom("b")
}
fn c() -> T {
    atom("c")
}

pub fn edb() -> Program {
    vec![fact("q", vec![a()]), fact("q", vec![b()]), fact("r", vec![b()]), fact("r", vec![c()])]
}

fn core_leaves(big: bool) -> Vec<G> {
    let mut l = vec![
        call("q", vec![v("$X")]),
        call("r", vec![v("$X")]),
        call("q", vec![v("$Y")]),
        G::Unify(v("$X"), v("$Y")),
        G::Unify(v("$X"), a()),
        G::Fail,
    ];
    if big {
        l.extend(vec![call("r", vec![v("$Y")]), G::Unify(v("$Y"), b()), call("q", vec![a()]), call("q", vec![T::Anon])]);
    }
    l
}

fn core_heads() -> Vec<T> {
    vec![cplx("p", vec![v("$X")]), cplx("p", vec![a()]), cplx("p", vec![T::Anon])]
}

fn core_queries() -> Vec<T> {
    vec![cplx("p", vec![v("$Z")]), cplx("p", vec![a()]), cplx("p", vec![c()])]
}

/// core: 1-2 clauses for p/1 over the EDB.
pub fn core(level: u8, f: &mut dyn FnMut(Case)) {
    // level 0: tiny (C05/C10/C11 riders); 1: quick; 2: thorough
    let (single_n, double_n, big) = match level {
        0 => (2, 1, false),
        1 => (3, 2, true),
        _ => (3, 3, false),
    };
    let leaves = core_leaves(big);
    let heads = core_heads();
    let singles = bodies_upto(&leaves, single_n);
    for h in &heads {
        for bdy in &singles {
            let mut p = edb();
            p.push(Clause { head: h.clone(), body: Some(bdy.clone()) });
            f(Case { family: "core", prog: p, queries: core_queries() });
        }
    }
    let doubles = bodies_upto(&leaves, double_n);
    let mut clauses: Vec<Clause> = vec![];
    for h in &heads {
        clauses.push(Clause { head: h.clone(), body: None });
        for bdy in &doubles {
            clauses.push(Clause { head: h.clone(), body: Some(bdy.clone()) });
        }
    }
    for c1 in &clauses {
        for c2 in &clauses {
            let mut p = edb();
            p.push(c1.clone());
            p.push(c2.clone());
            f(Case { family: "core", prog: p, queries: core_queries() });
        }
    }
}

fn cut_leaves() -> Vec<G> {
    vec![call("q", vec![v("$X")]), call("r", vec![v("$X")]), G::Cut, G::Fail, G::Unify(v("$X"), b()), call("s", vec![])]
}

fn cut_wrappers() -> Program {
    vec![
        fact("s", vec![]),
        fact("t", vec![b()]),
        fact("t", vec![c()]),
        // caller with a goal after the call
        rule("top1", vec![v("$X")], G::And(vec![call("p", vec![v("$X")]), call("t", vec![v("$X")])])),
        // sibling alternative
        rule("top2", vec![v("$X")], G::Or(vec![call("p", vec![v("$X")]), call("q", vec![v("$X")])])),
        // two calls of the same predicate
        rule("top3", vec![v("$X"), v("$Y")], G::And(vec![call("p", vec![v("$X")]), call("p", vec![v("$Y")])])),
        // caller with a backtrackable goal to the left of the call
        rule("top4", vec![v("$X"), v("$Y")], G::And(vec![call("q", vec![v("$Y")]), call("p", vec![v("$X")])])),
    ]
}

fn cut_queries() -> Vec<T> {
    vec![
        cplx("p", vec![v("$Z")]),
        cplx("p", vec![b()]),
        cplx("top1", vec![v("$Z")]),
        cplx("top2", vec![v("$Z")]),
        cplx("top3", vec![v("$Z"), v("$W")]),
        cplx("top4", vec![v("$Z"), v("$W")]),
    ]
}

/// cut: `!` at every leaf position of every tree shape, 2-3 clauses.
pub fn cut(level: u8, f: &mut dyn FnMut(Case)) {
    let n = match level {
        0 => 2,
        1 => 4,
        _ => 4,
    };
    let bodies: Vec<G> = bodies_upto(&cut_leaves(), n).into_iter().filter(|b| b.has_cut()).collect();
    let others = vec![fact("p", vec![c()]), rule("p", vec![v("$X")], call("r", vec![v("$X")])), fact("p", vec![a()])];
    let heads = if level >= 2 { vec![cplx("p", vec![v("$X")]), cplx("p", vec![b()])] } else { vec![cplx("p", vec![v("$X")])] };
    for h in &heads {
        for bdy in &bodies {
            let main = Clause { head: h.clone(), body: Some(bdy.clone()) };
            let mut emit = |cl: Vec<Clause>| {
                let mut p = edb();
                p.extend(cut_wrappers());
                p.extend(cl);
                f(Case { family: "cut", prog: p, queries: cut_queries() });
            };
            emit(vec![main.clone()]);
            for o in &others {
                emit(vec![main.clone(), o.clone()]);
                emit(vec![o.clone(), main.clone()]);
            }
            if level >= 1 && bdy.leaves() <= 3 {
                for o1 in &others {
                    for o2 in &others {
                        emit(vec![o1.clone(), main.clone(), o2.clone()]);
                    }
                }
            }
        }
    }
    if level >= 1 {
        // cut in two clauses, and a cut inside a called predicate (u/1)
        let small: Vec<G> = bodies_upto(&cut_leaves(), 2).into_iter().filter(|b| b.has_cut()).collect();
        for b1 in &small {
            for b2 in &small {
                let mut p = edb();
                p.extend(cut_wrappers());
                p.push(rule("p", vec![v("$X")], b1.clone()));
                p.push(rule("p", vec![v("$X")], b2.clone()));
                p.push(fact("p", vec![c()]));
                f(Case { family: "cut", prog: p, queries: cut_queries() });
            }
            // p calls u, u cuts: the cut must stay inside u
            for shape in 0..3 {
                let mut p = edb();
                p.extend(cut_wrappers());
                p.push(rule("u", vec![v("$X")], b1.clone()));
                p.push(fact("u", vec![c()]));
                let body = match shape {
                    0 => G::And(vec![call("q", vec![v("$Y")]), call("u", vec![v("$X")])]),
                    1 => G::Or(vec![call("u", vec![v("$X")]), call("r", vec![v("$X")])]),
                    _ => G::And(vec![call("u", vec![v("$X")]), call("r", vec![v("$X")])]),
                };
                p.push(rule("p", vec![v("$X")], body));
                p.push(fact("p", vec![a()]));
                f(Case { family: "cut", prog: p, queries: cut_queries() });
            }
        }
    }
}

fn not_args() -> Vec<G> {
    vec![
        call("q", vec![v("$X")]),
        call("r", vec![v("$X")]),
        call("q", vec![c()]),
        call("q", vec![a()]),
        call("q", vec![v("$Y")]),
        G::Unify(v("$X"), a()),
        G::Unify(v("$X"), c()),
        G::Cmp(Rel::Eq, v("$X"), a()),
        G::And(vec![call("q", vec![v("$X")]), call("r", vec![v("$X")])]),
        G::Or(vec![call("q", vec![v("$X")]), call("r", vec![v("$X")])]),
        G::And(vec![call("q", vec![v("$Y")]), G::Unify(v("$X"), v("$Y"))]),
        G::Fail,
        G::Not(Box::new(call("q", vec![v("$X")]))),
        // a test that only makes sense after the goal to its left has bound its operand
        G::And(vec![call("q", vec![v("$Y")]), G::Cmp(Rel::Gt, v("$Y"), a())]),
        G::And(vec![call("r", vec![v("$Y")]), G::Cmp(Rel::Eq, v("$Y"), v("$X"))]),
        // a call with two variables, one of them a body-only variable that has the *name* of the query's variable
        call("e", vec![v("$X"), v("$Z")]),
        call("e", vec![v("$Y"), v("$X")]),
        // order comparisons that have no answer for a reason other than the order: atom against number, unbound operand
        G::Cmp(Rel::Gt, v("$X"), T::Int(3)),
        G::Cmp(Rel::Le, v("$Y"), T::Int(3)),
    ]
}

fn text_expressible(g: &G) -> bool {
    match g {
        G::Not(inner) | G::Time(inner) => !matches!(**inner, G::And(_) | G::Or(_)) && text_expressible(inner),
        G::And(gs) | G::Or(gs) => gs.iter().all(text_expressible),
        _ => true,
    }
}

/// timeg: time(G) among backtracking goals (C05: silent after exhaustion; time(G) answers once).
pub fn timeg(_level: u8, f: &mut dyn FnMut(Case)) {
    let leaves = vec![
        call("q", vec![v("$X")]),
        call("r", vec![v("$X")]),
        G::Time(Box::new(call("q", vec![v("$X")]))),
        G::Time(Box::new(call("r", vec![v("$Y")]))),
        G::Time(Box::new(G::And(vec![call("q", vec![v("$X")]), call("r", vec![v("$X")])]))),
        G::Time(Box::new(G::Fail)),
        G::Fail,
        G::Unify(v("$X"), a()),
    ];
    let bodies: Vec<G> = bodies_upto(&leaves, 3).into_iter().filter(|b| b.has_time()).collect();
    let queries = vec![cplx("p", vec![v("$Z")]), cplx("p", vec![b()])];
    for bdy in &bodies {
        let mut p = edb();
        p.push(rule("p", vec![v("$X")], bdy.clone()));
        f(Case { family: "timeg", prog: p.clone(), queries: queries.clone() });
        if bdy.leaves() <= 2 {
            p.push(fact("p", vec![c()]));
            f(Case { family: "timeg", prog: p, queries: queries.clone() });
        }
    }
}

/// not: not(G) before/after binding goals, inside and/or.
pub fn not(level: u8, f: &mut dyn FnMut(Case)) {
    let n = if level == 0 { 2 } else { 3 };
    let mut leaves = vec![call("q", vec![v("$X")]), call("r", vec![v("$X")]), G::Unify(v("$X"), a()), G::Unify(v("$X"), c())];
    if level >= 1 {
        // a callee with variables of its own, and a body-only variable of the caller
        leaves.push(call("h", vec![v("$U")]));
        leaves.push(G::Unify(v("$X"), v("$V")));
    }
    let plain = leaves.len();
    for g in not_args() {
        leaves.push(G::Not(Box::new(g)));
    }
    let _ = plain;
    let bodies: Vec<G> = bodies_upto(&leaves, n).into_iter().filter(|b| b.has_not()).collect();
    let queries = vec![cplx("p", vec![v("$Z")]), cplx("p", vec![a()]), cplx("p", vec![c()])];
    for bdy in &bodies {
        let mut p = edb();
        p.push(rule("h", vec![v("$M")], G::And(vec![call("r", vec![v("$N")]), call("q", vec![v("$M")])])));
        // (no reflexive pair: e($V, $V) must have no answer)
        p.push(fact("e", vec![a(), b()]));
        p.push(fact("e", vec![b(), c()]));
        p.push(rule("p", vec![v("$X")], bdy.clone()));
        f(Case { family: "not", prog: p.clone(), queries: queries.clone() });
        // the same program built from source text (where the text can say it: not((a, b)) cannot be written)
        if level >= 1 && bdy.leaves() <= 2 && text_expressible(bdy) {
            f(Case { family: "not@infix", prog: p.clone(), queries: queries.clone() });
        }
        if bdy.leaves() <= 2 {
            // a second clause, and the not-clause called from a wrapper
            p.push(fact("p", vec![c()]));
            p.push(rule("w", vec![v("$X"), v("$Y")], G::And(vec![call("q", vec![v("$Y")]), call("p", vec![v("$X")])])));
            let mut qs = queries.clone();
            qs.push(cplx("w", vec![v("$Z"), v("$W")]));
            f(Case { family: "not", prog: p, queries: qs });
        }
    }
}

/// output: print / print_list / nl among backtracking goals.
pub fn output(level: u8, f: &mut dyn FnMut(Case)) {
    let n = if level == 0 { 2 } else { 3 };
    let leaves = vec![
        call("q", vec![v("$X")]),
        call("r", vec![v("$X")]),
        G::Print(vec![atom("x")]),
        G::Print(vec![v("$X")]),
        G::Print(vec![atom("<%s>"), v("$X")]),
        G::Nl,
        G::PrintList(vec![list(vec![a(), v("$X")])]),
        G::Fail,
        G::Unify(v("$X"), a()),
        // a call to a predicate without clauses, a format with more markers than values
        call("nosuch", vec![v("$X")]),
        G::Print(vec![atom("[%s:%s]"), v("$X")]),
        // a goal that succeeds twice without binding anything (t(k) is stated twice)
        call("t", vec![atom("k")]),
    ];
    let bodies: Vec<G> = bodies_upto(&leaves, n).into_iter().filter(|b| b.has_output()).collect();
    let queries = vec![cplx("p", vec![v("$Z")]), cplx("p", vec![a()])];
    for bdy in &bodies {
        let mut p = edb();
        p.push(fact("t", vec![atom("k")]));
        p.push(fact("t", vec![atom("k")]));
        p.push(rule("p", vec![v("$X")], bdy.clone()));
        f(Case { family: "output", prog: p.clone(), queries: queries.clone() });
        if bdy.leaves() <= 2 {
            p.push(rule("p", vec![v("$X")], G::And(vec![G::Print(vec![atom("2:%s%s"), v("$X"), atom("!")]), call("r", vec![v("$X")]), G::Nl])));
            p.push(rule("w", vec![v("$X")], G::And(vec![call("p", vec![v("$X")]), G::Print(vec![atom("w")]), call("r", vec![v("$X")])])));
            let mut qs = queries.clone();
            qs.push(cplx("w", vec![v("$Z")]));
            f(Case { family: "output", prog: p, queries: qs });
        }
    }
    // print formats: several markers, no markers with several arguments, bound through chains
    let fmts: Vec<Vec<T>> = vec![
        vec![atom("%s and %s"), v("$X"), v("$Y")],
        vec![atom("no markers "), v("$X"), atom(" "), v("$Y")],
        vec![atom("%s%s%s"), v("$X"), atom("-"), v("$Y")],
        vec![atom("tail %s"), v("$L")],
        vec![v("$X")],
        vec![atom("f: %s"), cplx("f", vec![a(), T::Int(1), T::Float(2.5)])],
        vec![T::Int(7), atom(" "), T::Float(1.5)],
        vec![atom("(%s|%s|%s)"), v("$X"), v("$Y")],
        vec![atom("%s%s"), v("$X")],
        vec![atom("%s and %s.")],
    ];
    // the format string reaches print through a variable (bound in the body, or fetched from a fact)
    for (fmt, args) in [("%s+%s", vec![v("$X"), v("$Y")]), ("<%s>", vec![v("$X")]), ("plain ", vec![v("$X")])] {
        let mut p = edb();
        p.push(fact("template", vec![atom(fmt)]));
        let mut pa = vec![v("$F")];
        pa.extend(args.clone());
        p.push(rule("p", vec![v("$X")], G::And(vec![call("q", vec![v("$X")]), call("r", vec![v("$Y")]), G::Unify(v("$F"), atom(fmt)), G::Print(pa.clone()), G::Nl])));
        f(Case { family: "output", prog: p.clone(), queries: queries.clone() });
        let mut p2 = edb();
        p2.push(fact("template", vec![atom(fmt)]));
        p2.push(rule("p", vec![v("$X")], G::And(vec![call("template", vec![v("$F")]), call("q", vec![v("$X")]), call("r", vec![v("$Y")]), G::Print(pa), G::Nl])));
        f(Case { family: "output", prog: p2, queries: queries.clone() });
    }
    for fm in fmts {
        let mut p = edb();
        p.push(rule(
            "p",
            vec![v("$X")],
            G::And(vec![call("q", vec![v("$X")]), call("r", vec![v("$Y")]), G::Unify(v("$L"), list(vec![v("$X"), v("$Y")])), G::Print(fm.clone()), G::Nl]),
        ));
        f(Case { family: "output", prog: p, queries: queries.clone() });
    }
}

/// builtins in bodies: arithmetic, comparison, list built-ins as leaves.
pub fn builtins(level: u8, f: &mut dyn FnMut(Case)) {
    let n = if level == 0 { 2 } else { 3 };
    let mut base = vec![fact("n", vec![T::Int(1)]), fact("n", vec![T::Int(2)]), fact("n", vec![T::Int(3)]), fact("m", vec![T::Int(2)]), fact("m", vec![T::Float(2.5)])];
    base.extend(edb());
    let leaves = vec![
        call("n", vec![v("$X")]),
        call("m", vec![v("$Y")]),
        G::Unify(v("$Y"), func("add", vec![v("$X"), T::Int(1)])),
        G::Unify(v("$Y"), func("multiply", vec![v("$X"), v("$X")])),
        G::Unify(v("$Y"), func("divide", vec![v("$X"), T::Int(2)])),
        G::Cmp(Rel::Lt, v("$X"), T::Int(2)),
        G::Cmp(Rel::Ge, v("$X"), v("$Y")),
        G::Cmp(Rel::Eq, v("$Y"), T::Int(2)),
        G::Bip("append".into(), vec![list(vec![v("$X")]), list(vec![atom("c")]), v("$Y")]),
        G::Bip("count".into(), vec![list(vec![v("$X"), atom("c")]), v("$Y")]),
        G::Bip("include".into(), vec![v("$X"), list(vec![T::Int(1), T::Int(2), T::Int(1)]), v("$Y")]),
        G::Bip("exclude".into(), vec![T::Int(2), list(vec![T::Int(1), T::Int(2), v("$X")]), v("$Y")]),
        G::Bip("functor".into(), vec![cplx("f", vec![v("$X")]), v("$Y"), T::Int(1)]),
    ];
    let bodies = bodies_upto(&leaves, n);
    let queries = vec![cplx("p", vec![v("$Z"), v("$W")]), cplx("p", vec![T::Int(2), v("$W")]), cplx("p", vec![v("$Z"), T::Int(2)])];
    for bdy in &bodies {
        let mut p = base.clone();
        p.push(rule("p", vec![v("$X"), v("$Y")], bdy.clone()));
        f(Case { family: "builtins", prog: p, queries: queries.clone() });
    }
}

/// nfacts: facts whose heads contain variables (nested in complex terms and
/// lists, repeated), called with unbound and partly bound arguments and
/// followed by further clauses with variables of their own.  The shapes in
/// which a "fresh" variable of a matched fact stays live in the caller.
pub fn nfacts(level: u8, f: &mut dyn FnMut(Case)) {
    let n = if level == 0 { 2 } else { 3 };
    let base: Program = vec![
        fact("w", vec![cplx("f", vec![v("$X")])]),
        fact("wl", vec![list_t(vec![v("$H")], v("$T"))]),
        fact("same", vec![v("$X"), v("$X")]),
        fact("pr", vec![cplx("pair", vec![v("$K"), v("$K")])]),
        fact("k", vec![T::Int(1)]),
        fact("k", vec![T::Int(2)]),
        fact("vf", vec![cplx("f", vec![T::Int(1)])]),
        fact("vf", vec![cplx("f", vec![T::Int(2)])]),
        rule("kk", vec![v("$M")], G::And(vec![call("k", vec![v("$M"), ]), call("same", vec![v("$M"), v("$N")]), call("k", vec![v("$N")])])),
    ];
    let leaves = vec![
        call("w", vec![v("$A")]),
        call("wl", vec![v("$A")]),
        call("pr", vec![v("$A")]),
        call("same", vec![v("$A"), v("$B")]),
        call("same", vec![v("$C"), v("$B")]),
        call("k", vec![v("$B")]),
        call("kk", vec![v("$B")]),
        call("vf", vec![v("$A")]),
        G::Unify(v("$A"), cplx("f", vec![v("$B")])),
        G::Unify(v("$A"), cplx("pair", vec![v("$B"), v("$C")])),
    ];
    let bodies = bodies_upto(&leaves, n);
    let queries = vec![cplx("p", vec![v("$Z"), v("$W")]), cplx("p", vec![cplx("f", vec![v("$Z")]), v("$W")]), cplx("p", vec![v("$Z"), T::Int(1)])];
    for bdy in &bodies {
        let mut p = base.clone();
        p.push(rule("p", vec![v("$A"), v("$B")], bdy.clone()));
        f(Case { family: "nfacts", prog: p, queries: queries.clone() });
    }
}

fn permutations<X: Clone>(v: &[X]) -> Vec<Vec<X>> {
    if v.len() <= 1 {
        return vec![v.to_vec()];
    }
    let mut out = vec![];
    for i in 0..v.len() {
        let mut rest = v.to_vec();
        let x = rest.remove(i);
        for mut p in permutations(&rest) {
            p.insert(0, x.clone());
            out.push(p);
        }
    }
    out
}

/// lists / recursion: classic predicates, all clause orders and body-goal orders.
pub fn lists(_level: u8, f: &mut dyn FnMut(Case)) {
    let h = || v("$H");
    let t = || v("$T");
    let abc = || list(vec![a(), b(), c()]);
    let mut groups: Vec<(Program, Vec<T>)> = vec![];
    groups.push((
        vec![fact("mem", vec![v("$X"), list_t(vec![v("$X")], T::Anon)]), rule("mem", vec![v("$X"), list_t(vec![T::Anon], t())], call("mem", vec![v("$X"), t()]))],
        vec![
            cplx("mem", vec![v("$Z"), abc()]),
            cplx("mem", vec![b(), abc()]),
            cplx("mem", vec![atom("d"), abc()]),
            cplx("mem", vec![v("$Z"), list(vec![])]),
            cplx("mem", vec![v("$Z"), list(vec![a(), v("$W"), a()])]),
            cplx("mem", vec![a(), list(vec![v("$Z"), v("$W")])]),
        ],
    ));
    groups.push((
        vec![
            fact("app", vec![list(vec![]), v("$L"), v("$L")]),
            rule("app", vec![list_t(vec![h()], t()), v("$L"), list_t(vec![h()], v("$R"))], call("app", vec![t(), v("$L"), v("$R")])),
        ],
        vec![
            cplx("app", vec![list(vec![a()]), list(vec![b()]), v("$Z")]),
            cplx("app", vec![v("$X"), v("$Y"), list(vec![a(), b()])]),
            cplx("app", vec![v("$X"), list(vec![b()]), list(vec![a(), b()])]),
            cplx("app", vec![list(vec![a(), b()]), v("$Y"), abc()]),
            cplx("app", vec![list(vec![]), list(vec![]), v("$Z")]),
            cplx("app", vec![list(vec![a(), b()]), list(vec![c()]), abc()]),
            cplx("app", vec![list(vec![a()]), v("$Y"), list(vec![b(), c()])]),
        ],
    ));
    groups.push((
        vec![
            fact("len", vec![list(vec![]), T::Int(0)]),
            rule("len", vec![list_t(vec![T::Anon], t()), v("$N")], G::And(vec![call("len", vec![t(), v("$M")]), G::Unify(v("$N"), func("add", vec![v("$M"), T::Int(1)]))])),
        ],
        vec![cplx("len", vec![abc(), v("$N")]), cplx("len", vec![list(vec![]), v("$N")]), cplx("len", vec![list(vec![a(), b()]), T::Int(2)]), cplx("len", vec![list(vec![a()]), T::Int(2)])],
    ));
    groups.push((
        vec![
            fact("rev", vec![list(vec![]), v("$A"), v("$A")]),
            rule("rev", vec![list_t(vec![h()], t()), v("$A"), v("$R")], call("rev", vec![t(), list_t(vec![h()], v("$A")), v("$R")])),
        ],
        vec![cplx("rev", vec![abc(), list(vec![]), v("$R")]), cplx("rev", vec![list(vec![]), list(vec![]), v("$R")]), cplx("rev", vec![list(vec![a(), b()]), list(vec![c()]), v("$R")])],
    ));
    groups.push((
        vec![
            fact("eq", vec![v("$A"), v("$A")]),
            rule("t1", vec![v("$A"), v("$B")], G::And(vec![G::Unify(v("$A"), v("$B")), G::Unify(v("$B"), v("$A"))])),
            rule("t2", vec![v("$A"), v("$B"), v("$C")], G::And(vec![G::Unify(v("$A"), v("$B")), G::Unify(v("$B"), v("$C")), G::Unify(v("$C"), v("$A"))])),
            rule("t3", vec![v("$A"), v("$B")], G::And(vec![call("eq", vec![v("$A"), v("$B")]), call("eq", vec![v("$B"), v("$A")]), call("q", vec![v("$A")])])),
        ],
        vec![
            cplx("eq", vec![v("$P"), v("$Q")]),
            cplx("eq", vec![v("$P"), a()]),
            cplx("eq", vec![v("$P"), v("$P")]),
            cplx("t1", vec![v("$P"), v("$Q")]),
            cplx("t1", vec![v("$P"), v("$P")]),
            cplx("t2", vec![v("$P"), v("$Q"), v("$S")]),
            cplx("t2", vec![v("$P"), a(), v("$S")]),
            cplx("t3", vec![v("$P"), v("$Q")]),
            cplx("eq", vec![list_t(vec![v("$P")], v("$Q")), list(vec![a(), b()])]),
            cplx("eq", vec![list(vec![]), list(vec![])]),
            cplx("eq", vec![list_t(vec![v("$P")], v("$Q")), list(vec![])]),
        ],
    ));
    // generate-and-test over lists with a partition (the repository's qsort shape)
    groups.push((
        vec![
            fact("part", vec![T::Anon, list(vec![]), list(vec![]), list(vec![])]),
            rule(
                "part",
                vec![v("$P"), list_t(vec![h()], t()), list_t(vec![h()], v("$L")), v("$G")],
                G::And(vec![G::Cmp(Rel::Le, h(), v("$P")), call("part", vec![v("$P"), t(), v("$L"), v("$G")])]),
            ),
            rule(
                "part",
                vec![v("$P"), list_t(vec![h()], t()), v("$L"), list_t(vec![h()], v("$G"))],
                G::And(vec![G::Cmp(Rel::Gt, h(), v("$P")), call("part", vec![v("$P"), t(), v("$L"), v("$G")])]),
            ),
        ],
        vec![
            cplx("part", vec![T::Int(2), list(vec![T::Int(3), T::Int(1), T::Int(2)]), v("$L"), v("$G")]),
            cplx("part", vec![T::Int(2), list(vec![]), v("$L"), v("$G")]),
            cplx("part", vec![T::Float(1.5), list(vec![T::Int(1), T::Int(2)]), v("$L"), v("$G")]),
        ],
    ));
    for (prog, queries) in groups {
        let mut base = edb();
        base.retain(|_| true);
        for perm in permutations(&prog) {
            // every order of the goals of every top-level conjunction
            let mut variants: Vec<Program> = vec![vec![]];
            for cl in &perm {
                let alts: Vec<Clause> = match &cl.body {
                    Some(G::And(gs)) if gs.len() <= 3 => permutations(gs).into_iter().map(|g| Clause { head: cl.head.clone(), body: Some(G::And(g)) }).collect(),
                    _ => vec![cl.clone()],
                };
                let mut next = vec![];
                for vprog in &variants {
                    for alt in &alts {
                        let mut p = vprog.clone();
                        p.push(alt.clone());
                        next.push(p);
                    }
                }
                variants = next;
            }
            for vprog in variants {
                let mut p = base.clone();
                p.extend(vprog);
                f(Case { family: "lists", prog: p, queries: queries.clone() });
            }
        }
    }
}

/// The repository's own knowledge bases with their documented answers, used to
/// guard the oracle itself (DESIGN §1.3 (i)).
pub fn oracle_guards() -> Vec<(Program, T, Vec<T>)> {
    let mut out = vec![];
    // test_kb(): loves/2, grandfather/2
    let f2 = |f: &str, x: &str, y: &str| fact(f, vec![atom(x), atom(y)]);
    let kb = vec![
        f2("loves", "Leonard", "Penny"),
        f2("loves", "Penny", "Leonard"),
        f2("father", "Alfred", "Edward"),
        f2("father", "Edward", "Aethelstan"),
        rule("grandfather", vec![v("$X"), v("$Y")], G::And(vec![call("father", vec![v("$X"), v("$Z")]), call("father", vec![v("$Z"), v("$Y")])])),
        rule("grandfather", vec![v("$X"), v("$Y")], G::And(vec![call("father", vec![v("$X"), v("$Z")]), call("mother", vec![v("$Z"), v("$Y")])])),
    ];
    out.push((kb.clone(), cplx("loves", vec![v("$Who"), v("$Whom")]), vec![cplx("loves", vec![atom("Leonard"), atom("Penny")]), cplx("loves", vec![atom("Penny"), atom("Leonard")])]));
    out.push((kb, cplx("grandfather", vec![v("$Who"), v("$Whom")]), vec![cplx("grandfather", vec![atom("Alfred"), atom("Aethelstan")])]));
    // test_set_no_backtracking
    let gv = vec![
        rule("get_value", vec![v("$X")], G::Unify(v("$X"), T::Int(1))),
        rule("get_value", vec![v("$X")], G::Unify(v("$X"), T::Int(2))),
        rule("test1", vec![v("$X")], G::And(vec![call("get_value", vec![v("$X")]), G::Cmp(Rel::Eq, v("$X"), T::Int(2))])),
        rule("test2", vec![v("$X")], G::And(vec![call("get_value", vec![v("$X")]), G::Cut, G::Cmp(Rel::Eq, v("$X"), T::Int(2))])),
    ];
    out.push((gv.clone(), cplx("test1", vec![v("$X")]), vec![cplx("test1", vec![T::Int(2)])]));
    out.push((gv, cplx("test2", vec![v("$X")]), vec![]));
    out
}
