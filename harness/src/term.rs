//! Harness-side term AST (`T`), conversion to and from suiron's `Unifiable`,
//! canonical text, well-formedness of engine-built lists.
//!
//! `T` is the *oracle's* view of a term: lists are a sequence of elements plus
//! an optional tail, nothing else.  The implementation's linked-list encoding
//! (`term/next/count/tail_var`) is only ever produced by `to_suiron` (the
//! documented canonical encoding: what `parse_linked_list` builds) or by the
//! implementation itself, and only ever read back by `decode`.

use std::fmt::Write as _;
use std::hash::{Hash, Hasher};
use suiron::Unifiable;

#[derive(Clone, Debug)]
pub enum T {
    Var(usize, String),
    Anon,
    Atom(String),
    Int(i64),
    Float(f64),
    Cplx(String, Vec<T>),
    /// elements, optional tail (never itself a `List`: `norm` splices those)
    List(Vec<T>, Option<Box<T>>),
    Func(String, Vec<T>),
}

impl PartialEq for T {
    fn eq(&self, o: &T) -> bool {
        use T::*;
        match (self, o) {
            (Var(a, _), Var(b, _)) => a == b,
            (Anon, Anon) => true,
            (Atom(a), Atom(b)) => a == b,
            (Int(a), Int(b)) => a == b,
            (Float(a), Float(b)) => a.to_bits() == b.to_bits() || a == b,
            (Cplx(f, a), Cplx(g, b)) => f == g && a == b,
            (List(a, t), List(b, u)) => a == b && t == u,
            (Func(f, a), Func(g, b)) => f == g && a == b,
            _ => false,
        }
    }
}
impl Eq for T {}
impl Hash for T {
    fn hash<H: Hasher>(&self, h: &mut H) {
        use T::*;
        std::mem::discriminant(self).hash(h);
        match self {
            Var(i, _) => i.hash(h),
            Anon => {}
            Atom(s) => s.hash(h),
            Int(i) => i.hash(h),
            Float(f) => {
                // -0.0 == 0.0 under PartialEq above, so hash them alike.
                let f = if *f == 0.0 { 0.0f64 } else { *f };
                f.to_bits().hash(h)
            }
            Cplx(f, a) | Func(f, a) => {
                f.hash(h);
                a.hash(h)
            }
            List(a, t) => {
                a.hash(h);
                t.hash(h)
            }
        }
    }
}

pub fn var(id: usize, name: &str) -> T {
    T::Var(id, name.to_string())
}
pub fn atom(s: &str) -> T {
    T::Atom(s.to_string())
}
pub fn cplx(f: &str, args: Vec<T>) -> T {
    T::Cplx(f.to_string(), args)
}
pub fn list(elems: Vec<T>) -> T {
    T::List(elems, None)
}
pub fn list_t(elems: Vec<T>, tail: T) -> T {
    T::List(elems, Some(Box::new(tail))).norm()
}
pub fn func(f: &str, args: Vec<T>) -> T {
    T::Func(f.to_string(), args)
}

impl T {
    /// Splice list-valued tails: `[a | [b, c]]` is `[a, b, c]`.
    pub fn norm(self) -> T {
        match self {
            T::List(mut es, Some(t)) => {
                let t = t.norm();
                es = es.into_iter().map(|e| e.norm()).collect();
                match t {
                    T::List(es2, t2) => {
                        es.extend(es2);
                        T::List(es, t2)
                    }
                    other => T::List(es, Some(Box::new(other))),
                }
            }
            T::List(es, None) => T::List(es.into_iter().map(|e| e.norm()).collect(), None),
            T::Cplx(f, a) => T::Cplx(f, a.into_iter().map(|e| e.norm()).collect()),
            T::Func(f, a) => T::Func(f, a.into_iter().map(|e| e.norm()).collect()),
            o => o,
        }
    }

    pub fn vars(&self, out: &mut Vec<usize>) {
        match self {
            T::Var(i, _) => {
                if !out.contains(i) {
                    out.push(*i)
                }
            }
            T::Cplx(_, a) | T::Func(_, a) => a.iter().for_each(|x| x.vars(out)),
            T::List(a, t) => {
                a.iter().for_each(|x| x.vars(out));
                if let Some(t) = t {
                    t.vars(out)
                }
            }
            _ => {}
        }
    }

    pub fn has_anon(&self) -> bool {
        match self {
            T::Anon => true,
            T::Cplx(_, a) | T::Func(_, a) => a.iter().any(|x| x.has_anon()),
            T::List(a, t) => a.iter().any(|x| x.has_anon()) || t.as_ref().map_or(false, |t| t.has_anon()),
            _ => false,
        }
    }

    pub fn has_func(&self) -> bool {
        match self {
            T::Func(..) => true,
            T::Cplx(_, a) => a.iter().any(|x| x.has_func()),
            T::List(a, t) => a.iter().any(|x| x.has_func()) || t.as_ref().map_or(false, |t| t.has_func()),
            _ => false,
        }
    }

    pub fn size(&self) -> usize {
        match self {
            T::Cplx(_, a) | T::Func(_, a) => 1 + a.iter().map(|x| x.size()).sum::<usize>(),
            T::List(a, t) => 1 + a.iter().map(|x| x.size()).sum::<usize>() + t.as_ref().map_or(0, |t| t.size()),
            _ => 1,
        }
    }

    /// Map variable ids (used by alpha-renaming and by "fresh copy").
    pub fn map_vars(&self, f: &mut dyn FnMut(usize, &str) -> T) -> T {
        match self {
            T::Var(i, n) => f(*i, n),
            T::Cplx(g, a) => T::Cplx(g.clone(), a.iter().map(|x| x.map_vars(f)).collect()),
            T::Func(g, a) => T::Func(g.clone(), a.iter().map(|x| x.map_vars(f)).collect()),
            T::List(a, t) => {
                let a2 = a.iter().map(|x| x.map_vars(f)).collect();
                let t2 = t.as_ref().map(|t| Box::new(t.map_vars(f)));
                T::List(a2, t2).norm()
            }
            o => o.clone(),
        }
    }

    /// The documented surface syntax.  Variables print by name only (id is
    /// dropped) so the text can be fed to the parsers.
    pub fn text(&self) -> String {
        let mut s = String::new();
        self.write_text(&mut s, false);
        s
    }
    /// Like `text` but variables print as the engine's Display does (`$X_3`).
    pub fn text_ids(&self) -> String {
        let mut s = String::new();
        self.write_text(&mut s, true);
        s
    }
    fn write_text(&self, s: &mut String, ids: bool) {
        match self {
            T::Var(i, n) => {
                if ids && *i != 0 {
                    let _ = write!(s, "{}_{}", n, i);
                } else {
                    s.push_str(n)
                }
            }
            T::Anon => s.push_str("$_"),
            T::Atom(a) => s.push_str(a),
            T::Int(i) => {
                let _ = write!(s, "{}", i);
            }
            T::Float(f) => {
                // source text: a float always shows a fractional part
                // (the engine's Display prints 1.0 as `1`; see `display`)
                if f.is_finite() && f.fract() == 0.0 && f.abs() < 1e15 {
                    let _ = write!(s, "{:.1}", f);
                } else {
                    let _ = write!(s, "{}", f);
                }
            }
            T::Cplx(f, a) | T::Func(f, a) => {
                s.push_str(f);
                s.push('(');
                for (i, x) in a.iter().enumerate() {
                    if i > 0 {
                        s.push_str(", ")
                    }
                    x.write_text(s, ids);
                }
                s.push(')');
            }
            T::List(a, t) => {
                s.push('[');
                for (i, x) in a.iter().enumerate() {
                    if i > 0 {
                        s.push_str(", ")
                    }
                    x.write_text(s, ids);
                }
                if let Some(t) = t {
                    s.push_str(" | ");
                    t.write_text(s, ids);
                }
                s.push(']');
            }
        }
    }
}

fn cons(term: Unifiable, next: Unifiable, count: usize, tail_var: bool) -> Unifiable {
    Unifiable::SLinkedList { term: Box::new(term), next: Box::new(next), count, tail_var }
}

pub fn empty_list() -> Unifiable {
    cons(Unifiable::Nil, Unifiable::Nil, 0, false)
}

/// Canonical encoding (what the list parser builds for the same text).
pub fn to_suiron(t: &T) -> Unifiable {
    match t {
        T::Var(i, n) => Unifiable::LogicVar { id: *i, name: n.clone() },
        T::Anon => Unifiable::Anonymous,
        T::Atom(a) => Unifiable::Atom(a.clone()),
        T::Int(i) => Unifiable::SInteger(*i),
        T::Float(f) => Unifiable::SFloat(*f),
        T::Cplx(f, a) => {
            let mut v = vec![Unifiable::Atom(f.clone())];
            v.extend(a.iter().map(to_suiron));
            Unifiable::SComplex(v)
        }
        T::Func(f, a) => Unifiable::SFunction { name: f.clone(), terms: a.iter().map(to_suiron).collect() },
        T::List(a, t) => {
            let mut l = empty_list();
            let mut n = 0usize;
            if let Some(t) = t {
                n += 1;
                l = cons(to_suiron(t), l, n, true);
            }
            for e in a.iter().rev() {
                n += 1;
                l = cons(to_suiron(e), l, n, false);
            }
            l
        }
    }
}

/// Lenient decoder: reads whatever list encoding the engine produced as an
/// element sequence (a node whose term is `Nil` ends the list; a `tail_var`
/// node contributes its term as the tail).  Structural defects are reported
/// separately by `wellformed`.
pub fn decode(u: &Unifiable) -> T {
    decode_d(u, 0)
}
fn decode_d(u: &Unifiable, depth: usize) -> T {
    if depth > 5000 {
        return atom("<<too deep>>");
    }
    match u {
        Unifiable::Nil => atom("<<Nil>>"),
        Unifiable::Anonymous => T::Anon,
        Unifiable::Atom(s) => T::Atom(s.clone()),
        Unifiable::SFloat(f) => T::Float(*f),
        Unifiable::SInteger(i) => T::Int(*i),
        Unifiable::LogicVar { id, name } => T::Var(*id, name.clone()),
        Unifiable::SComplex(v) => {
            let f = match v.first() {
                Some(Unifiable::Atom(s)) => s.clone(),
                Some(o) => format!("<<functor {}>>", o),
                None => "<<no functor>>".to_string(),
            };
            T::Cplx(f, v.iter().skip(1).map(|x| decode_d(x, depth + 1)).collect())
        }
        Unifiable::SFunction { name, terms } => T::Func(name.clone(), terms.iter().map(|x| decode_d(x, depth + 1)).collect()),
        Unifiable::SLinkedList { .. } => {
            let mut es = vec![];
            let mut tail = None;
            let mut cur = u;
            let mut guard = 0;
            loop {
                guard += 1;
                if guard > 10_000 {
                    break;
                }
                match cur {
                    Unifiable::SLinkedList { term, next, tail_var, .. } => {
                        if **term == Unifiable::Nil {
                            break;
                        }
                        if *tail_var {
                            tail = Some(Box::new(decode_d(term, depth + 1)));
                            break;
                        }
                        es.push(decode_d(term, depth + 1));
                        cur = next;
                    }
                    _ => break, // Nil or garbage: wellformed() reports it
                }
            }
            T::List(es, tail).norm()
        }
    }
}

/// C15 well-formedness of one list encoding (not recursing into tails bound
/// elsewhere): counts n, n-1, …, 1 then the terminator `(Nil, Nil, 0, false)`;
/// `tail_var` only on the last real node and only on a variable / `$_` (or, in
/// a resolved answer, whatever that variable was bound to).
pub fn wellformed(u: &Unifiable) -> Result<(), String> {
    match u {
        Unifiable::SComplex(v) => {
            for x in v {
                wellformed(x)?
            }
            Ok(())
        }
        Unifiable::SFunction { terms, .. } => {
            for x in terms {
                wellformed(x)?
            }
            Ok(())
        }
        Unifiable::SLinkedList { count, .. } => {
            let mut cur = u;
            let mut expect = *count;
            loop {
                match cur {
                    Unifiable::SLinkedList { term, next, count, tail_var } => {
                        if *count != expect {
                            return Err(format!("count {} where {} expected in {:?}", count, expect, shape(u)));
                        }
                        if **term == Unifiable::Nil {
                            if *count != 0 || *tail_var || **next != Unifiable::Nil {
                                return Err(format!("bad terminator in {:?}", shape(u)));
                            }
                            return Ok(());
                        }
                        if *count == 0 {
                            return Err(format!("count 0 on a non-empty node in {:?}", shape(u)));
                        }
                        if *tail_var && *count != 1 {
                            return Err(format!("tail_var on a non-final node in {:?}", shape(u)));
                        }
                        wellformed(term)?;
                        expect -= 1;
                        cur = next;
                    }
                    other => return Err(format!("list ends in {:?} instead of the empty-list node: {:?}", other, shape(u))),
                }
            }
        }
        _ => Ok(()),
    }
}

/// Compact rendering of a raw list encoding for messages.
pub fn shape(u: &Unifiable) -> String {
    match u {
        Unifiable::SLinkedList { term, next, count, tail_var } => {
            format!("({}, {}, {}{})", shape(term), shape(next), count, if *tail_var { ", tail" } else { "" })
        }
        Unifiable::SComplex(v) => format!("C[{}]", v.iter().map(shape).collect::<Vec<_>>().join(",")),
        Unifiable::SFunction { name, terms } => format!("F:{}[{}]", name, terms.iter().map(shape).collect::<Vec<_>>().join(",")),
        Unifiable::LogicVar { id, name } => format!("{}_{}", name, id),
        o => format!("{}", o),
    }
}

/// Variant check on *vectors* of terms: is there a bijection between the
/// unbound variables of `a` and of `b` making them equal?  With
/// `anon_wild`, a `$_` on either side matches any term (used only where a
/// wildcard ended up inside a binding; see DESIGN §1.3).
pub fn variant_vec(a: &[T], b: &[T], anon_wild: bool) -> bool {
    if a.len() != b.len() {
        return false;
    }
    let mut fwd = std::collections::HashMap::new();
    let mut bwd = std::collections::HashMap::new();
    a.iter().zip(b.iter()).all(|(x, y)| variant_in(x, y, &mut fwd, &mut bwd, anon_wild))
}

fn variant_in(
    a: &T,
    b: &T,
    fwd: &mut std::collections::HashMap<usize, usize>,
    bwd: &mut std::collections::HashMap<usize, usize>,
    anon_wild: bool,
) -> bool {
    use T::*;
    if anon_wild && (matches!(a, Anon) || matches!(b, Anon)) {
        return true;
    }
    match (a, b) {
        (Var(i, _), Var(j, _)) => {
            let f = *fwd.entry(*i).or_insert(*j);
            let g = *bwd.entry(*j).or_insert(*i);
            f == *j && g == *i
        }
        (Anon, Anon) => true,
        (Atom(x), Atom(y)) => x == y,
        (Int(x), Int(y)) => x == y,
        (Float(x), Float(y)) => x.to_bits() == y.to_bits() || x == y,
        (Cplx(f, x), Cplx(g, y)) | (Func(f, x), Func(g, y)) => {
            f == g && x.len() == y.len() && x.iter().zip(y.iter()).all(|(p, q)| variant_in(p, q, fwd, bwd, anon_wild))
        }
        (List(x, t), List(y, u)) => {
            if anon_wild {
                // a wildcard tail matches any remainder
                let n = x.len().min(y.len());
                if !x[..n].iter().zip(y[..n].iter()).all(|(p, q)| variant_in(p, q, fwd, bwd, anon_wild)) {
                    return false;
                }
                let rx = T::List(x[n..].to_vec(), t.clone());
                let ry = T::List(y[n..].to_vec(), u.clone());
                let rx = match rx {
                    T::List(ref e, Some(ref t)) if e.is_empty() => (**t).clone(),
                    o => o,
                };
                let ry = match ry {
                    T::List(ref e, Some(ref t)) if e.is_empty() => (**t).clone(),
                    o => o,
                };
                if matches!(rx, Anon) || matches!(ry, Anon) {
                    return true;
                }
                match (&rx, &ry) {
                    (List(a1, t1), List(a2, t2)) => {
                        a1.len() == a2.len()
                            && a1.iter().zip(a2.iter()).all(|(p, q)| variant_in(p, q, fwd, bwd, anon_wild))
                            && match (t1, t2) {
                                (None, None) => true,
                                (Some(p), Some(q)) => variant_in(p, q, fwd, bwd, anon_wild),
                                _ => false,
                            }
                    }
                    (p, q) => variant_in(p, q, fwd, bwd, anon_wild),
                }
            } else {
                x.len() == y.len()
                    && x.iter().zip(y.iter()).all(|(p, q)| variant_in(p, q, fwd, bwd, anon_wild))
                    && match (t, u) {
                        (None, None) => true,
                        (Some(p), Some(q)) => variant_in(p, q, fwd, bwd, anon_wild),
                        _ => false,
                    }
            }
        }
        _ => false,
    }
}

// ---------------------------------------------------------------- JSON
use serde_json::{json, Value};

impl T {
    pub fn to_json(&self) -> Value {
        match self {
            T::Var(i, n) => json!({"v": [i, n]}),
            T::Anon => json!("_"),
            T::Atom(a) => json!({"a": a}),
            T::Int(i) => json!({"i": i.to_string()}),
            T::Float(f) => json!({"f": format!("{:?}", f)}),
            T::Cplx(f, a) => json!({"c": [f, a.iter().map(|x| x.to_json()).collect::<Vec<_>>()]}),
            T::Func(f, a) => json!({"fn": [f, a.iter().map(|x| x.to_json()).collect::<Vec<_>>()]}),
            T::List(a, t) => json!({"l": [a.iter().map(|x| x.to_json()).collect::<Vec<_>>(), t.as_ref().map(|t| t.to_json())]}),
        }
    }
    pub fn from_json(v: &Value) -> Option<T> {
        if v == "_" {
            return Some(T::Anon);
        }
        let o = v.as_object()?;
        if let Some(x) = o.get("v") {
            return Some(T::Var(x[0].as_u64()? as usize, x[1].as_str()?.to_string()));
        }
        if let Some(x) = o.get("a") {
            return Some(T::Atom(x.as_str()?.to_string()));
        }
        if let Some(x) = o.get("i") {
            return Some(T::Int(x.as_str()?.parse().ok()?));
        }
        if let Some(x) = o.get("f") {
            let s = x.as_str()?;
            let f = match s {
                "inf" => f64::INFINITY,
                "-inf" => f64::NEG_INFINITY,
                "NaN" => f64::NAN,
                _ => s.parse().ok()?,
            };
            return Some(T::Float(f));
        }
        let args = |x: &Value| -> Option<Vec<T>> { x.as_array()?.iter().map(T::from_json).collect() };
        if let Some(x) = o.get("c") {
            return Some(T::Cplx(x[0].as_str()?.to_string(), args(&x[1])?));
        }
        if let Some(x) = o.get("fn") {
            return Some(T::Func(x[0].as_str()?.to_string(), args(&x[1])?));
        }
        if let Some(x) = o.get("l") {
            let tail = if x[1].is_null() { None } else { Some(Box::new(T::from_json(&x[1])?)) };
            return Some(T::List(args(&x[0])?, tail));
        }
        None
    }
}
