//! E2b — session histories on the real engine with the real timer (C22; the
//! single-session part also serves C23).
//!
//! A *session* is one query built with a query constructor and driven in one
//! of the documented ways (`next_solution` once and abandoned, `next_solution`
//! to exhaustion plus re-asks, `solve` repeatedly, `solve_all`).  Every history
//! of sessions up to the length bound is executed **in a fresh process**
//! (fork), so that the only thing a session can inherit is what its
//! predecessors in that history left in the process: the id counter, the stop
//! flag / epoch, armed timers, abandoned nodes.  Each session's observations
//! (answers, strings, text written) must equal what the reference interpreter
//! gives for that query on its own.

use crate::implrun::{dismantle, format_answer, number_query};
use crate::prog::*;
use crate::refsolve;
use crate::supervise::Worker;
use crate::term::*;
use serde_json::{json, Value};
use std::rc::Rc;

pub const TIMEOUT_MSG: &str = "Query timed out after 1000 milliseconds.";

#[derive(Clone, Copy, Debug, PartialEq)]
pub enum Mode {
    /// one `next_solution`, the node is kept alive and never asked again
    NextOne,
    /// `next_solution` until `None`, then two re-asks
    NextAll,
    /// `solve` until `No more.` (or a timeout), then one more call
    Solve,
    /// `solve_all` once
    SolveAll,
}

#[derive(Clone, Copy, Debug, PartialEq)]
pub struct Sess {
    pub q: usize,
    pub mode: Mode,
}

pub fn program() -> Program {
    let a = || atom("a");
    let b = || atom("b");
    let c = || atom("c");
    let mut p = vec![
        fact("q", vec![a()]),
        fact("q", vec![b()]),
        fact("q", vec![c()]),
        fact("r", vec![b()]),
        fact("r", vec![c()]),
        rule("p", vec![v("$X")], call("q", vec![v("$X")])),
        rule("pn", vec![v("$X")], G::And(vec![call("q", vec![v("$X")]), G::Not(Box::new(call("r", vec![v("$X")])))])),
        rule("pc", vec![v("$X")], G::And(vec![call("q", vec![v("$X")]), call("r", vec![v("$X")]), G::Cut])),
        fact("pc", vec![a()]),
        rule("pp", vec![v("$X")], G::And(vec![call("r", vec![v("$X")]), G::Print(vec![atom("<%s>"), v("$X")]), G::Nl])),
        rule("two", vec![v("$X"), v("$Y")], G::And(vec![call("q", vec![v("$X")]), call("r", vec![v("$Y")]), G::Cmp(crate::refbuiltins::Rel::Lt, v("$X"), v("$Y"))])),
        fact("eq", vec![v("$A"), v("$A")]),
        // a wide goal and a nested one: many variables in one query
        fact("wide", (1..=9).map(|i| T::Int(i)).collect()),
        rule("wide", (1..=9).map(|i| v(&format!("$W{}", i))).collect(), G::And(vec![call("q", vec![v("$W1")]), G::Unify(v("$W9"), v("$W1")), G::Unify(v("$W2"), atom("k"))])),
        fact("nest", vec![v("$A"), v("$B"), cplx("f", vec![v("$A"), v("$B"), cplx("g", vec![v("$B"), v("$A"), atom("z")])])]),
        // a body-only variable in a later goal, after a goal whose second clause has variables of its own
        rule("bo", vec![v("$X")], G::And(vec![call("bq", vec![v("$X")]), call("bc", vec![v("$B")])])),
        fact("bq", vec![T::Int(1)]),
        rule("bq", vec![v("$Y")], G::Unify(v("$Y"), T::Int(7))),
        fact("bc", vec![atom("k")]),
        // sl: three quick answers, then a search far longer than the limit
        rule("sl", vec![v("$X")], call("q", vec![v("$X")])),
        rule("sl", vec![v("$X")], call("slow", vec![v("$X")])),
    ];
    for i in 0..10 {
        p.push(fact("d", vec![T::Int(i)]));
    }
    let d = |n: &str| call("d", vec![v(n)]);
    p.push(rule("slow", vec![v("$X")], G::And(vec![d("$A"), d("$B"), d("$C"), d("$D"), d("$E"), d("$F"), d("$G"), d("$H"), d("$I"), G::Fail])));
    p
}

/// The program the reference uses: `slow/1` has no answers (it would need 10^9
/// inferences to find that out), so its clauses are dropped.
fn reference_program() -> Program {
    program().into_iter().filter(|c| !matches!(&c.head, T::Cplx(f, _) if f == "slow")).collect()
}

pub fn queries() -> Vec<(T, bool)> {
    // (query, slow)
    vec![
        (cplx("p", vec![v("$Z")]), false),
        (cplx("pn", vec![v("$Z")]), false),
        (cplx("pc", vec![v("$Z")]), false),
        (cplx("pp", vec![v("$Z")]), false),
        (cplx("two", vec![v("$Z"), v("$W")]), false),
        (cplx("eq", vec![v("$Z"), cplx("f", vec![v("$W")])]), false),
        // a query without variables
        (cplx("p", vec![atom("b")]), false),
        // a constant before a variable: the query's variables do not line up with the rule head's
        (cplx("two", vec![atom("b"), v("$W")]), false),
        (cplx("wide", (1..=9).map(|i| v(&format!("$Q{}", i))).collect()), false),
        (cplx("nest", vec![v("$A"), atom("b"), cplx("f", vec![v("$C"), v("$D"), cplx("g", vec![v("$E"), v("$F"), v("$G")])])]), false),
        (cplx("bo", vec![v("$Z")]), false),
        (cplx("sl", vec![v("$Z")]), true),
    ]
}

pub fn alphabet() -> Vec<Sess> {
    let mut out = vec![];
    for (qi, (_, slow)) in queries().iter().enumerate() {
        if *slow {
            out.push(Sess { q: qi, mode: Mode::SolveAll });
            out.push(Sess { q: qi, mode: Mode::Solve });
            out.push(Sess { q: qi, mode: Mode::NextOne });
        } else {
            for m in [Mode::NextOne, Mode::NextAll, Mode::Solve, Mode::SolveAll] {
                out.push(Sess { q: qi, mode: m });
            }
        }
    }
    out
}

fn is_slow(s: &Sess) -> bool {
    queries()[s.q].1 && s.mode != Mode::NextOne
}

/// Replace the numeric id suffix of every variable name by its order of first
/// appearance: answers are compared up to renaming of unbound variables.
pub fn norm_ids(s: &str) -> String {
    let b: Vec<char> = s.chars().collect();
    let mut out = String::new();
    let mut seen: Vec<String> = vec![];
    let mut i = 0;
    while i < b.len() {
        if b[i] == '$' {
            let mut j = i + 1;
            while j < b.len() && (b[j].is_alphanumeric() || b[j] == '_') {
                j += 1;
            }
            let name: String = b[i..j].iter().collect();
            if let Some(us) = name.rfind('_') {
                if us + 1 < name.len() && name[us + 1..].chars().all(|c| c.is_ascii_digit()) {
                    let k = match seen.iter().position(|x| *x == name) {
                        Some(k) => k,
                        None => {
                            seen.push(name.clone());
                            seen.len() - 1
                        }
                    };
                    out.push_str(&format!("{}_#{}", &name[..us], k));
                    i = j;
                    continue;
                }
            }
            out.push_str(&name);
            i = j;
        } else {
            out.push(b[i]);
            i += 1;
        }
    }
    out
}

/// What one session must show, from the reference interpreter.
pub fn expected(s: &Sess) -> (Vec<String>, String) {
    let (q, slow) = queries()[s.q].clone();
    let qn = number_query(&q);
    let rf = refsolve::run(&reference_program(), &qn, 100_000, 50);
    assert!(rf.skipped.is_none(), "reference could not run a session query: {:?}", rf.skipped);
    let answers: Vec<&(Option<T>, String)> = rf.steps.iter().filter(|x| x.0.is_some()).collect();
    let all_out: String = rf.steps.iter().map(|x| x.1.clone()).collect();
    let fmt = |a: &T| -> String {
        match format_answer(&qn, a) {
            Some(s) => s,
            None => {
                // an answer with unbound variables: `$Z = $A_3`-style; compare up to ids
                let (qa, aa) = match (&qn, a) {
                    (T::Cplx(_, qa), T::Cplx(_, aa)) => (qa.clone(), aa.clone()),
                    _ => unreachable!(),
                };
                let mut parts = vec![];
                for (qv, av) in qa.iter().zip(aa.iter()) {
                    if let T::Var(_, name) = qv {
                        parts.push(format!("{} = {}", name, av.text_ids()));
                    }
                }
                parts.join(", ")
            }
        }
    };
    match s.mode {
        Mode::NextOne => {
            let first = rf.steps.first().unwrap();
            (vec![first.0.as_ref().map_or("None".to_string(), |a| a.text_ids())], first.1.clone())
        }
        Mode::NextAll => {
            let mut v: Vec<String> = answers.iter().map(|x| x.0.as_ref().unwrap().text_ids()).collect();
            v.extend(["None".to_string(), "None".to_string(), "None".to_string()]);
            (v, all_out)
        }
        Mode::Solve => {
            let mut v: Vec<String> = answers.iter().map(|x| fmt(x.0.as_ref().unwrap())).collect();
            if slow {
                v.push(TIMEOUT_MSG.to_string());
            } else {
                v.push("No more.".to_string());
                v.push("No more.".to_string());
            }
            (v, all_out)
        }
        Mode::SolveAll => {
            let mut v: Vec<String> = answers.iter().map(|x| fmt(x.0.as_ref().unwrap())).collect();
            if slow {
                v.push(TIMEOUT_MSG.to_string());
            }
            (v, all_out)
        }
    }
}

pub struct Kept<'a> {
    nodes: Vec<Rc<std::cell::RefCell<suiron::SolutionNode<'a>>>>,
}

type Node<'a> = Rc<std::cell::RefCell<suiron::SolutionNode<'a>>>;

/// Build the query of a session with a query constructor (both are exercised:
/// the text one for the string modes) and its base node.
pub fn build_session<'a>(kb: &'a suiron::KnowledgeBase, s: &Sess) -> (Rc<suiron::Goal>, Node<'a>) {
    let (q, _) = queries()[s.q].clone();
    let goal = match s.mode {
        Mode::Solve | Mode::SolveAll => suiron::parse_query(&q.text()).expect("session query parses"),
        _ => crate::implrun::make_query(&q),
    };
    let goal = Rc::new(goal);
    let sn = suiron::make_base_node(Rc::clone(&goal), kb);
    (goal, sn)
}

/// Run one session on the real engine; returns (observations, text written).
pub fn run_session<'a>(w: &mut Worker, kb: &'a suiron::KnowledgeBase, s: &Sess, kept: &mut Kept<'a>, prebuilt: Option<(Rc<suiron::Goal>, Node<'a>)>) -> (Vec<String>, String) {
    let _ = w.cap.take();
    let (goal, sn) = match prebuilt {
        Some(x) => x,
        None => build_session(kb, s),
    };
    let mut obs = vec![];
    match s.mode {
        Mode::NextOne => {
            match suiron::next_solution(Rc::clone(&sn)) {
                Some(ss) => obs.push(decode(&goal.replace_variables(&ss)).text_ids()),
                None => obs.push("None".into()),
            }
        }
        Mode::NextAll => {
            let mut nones = 0;
            while obs.len() < 40 && nones < 3 {
                match suiron::next_solution(Rc::clone(&sn)) {
                    Some(ss) => obs.push(decode(&goal.replace_variables(&ss)).text_ids()),
                    None => {
                        nones += 1;
                        obs.push("None".into())
                    }
                }
            }
        }
        Mode::Solve => {
            let mut ends = 0;
            while obs.len() < 40 {
                let r = suiron::solve(Rc::clone(&sn));
                let timed_out = r.starts_with("Query timed out");
                if r == "No more." {
                    ends += 1;
                }
                obs.push(r);
                if timed_out || ends >= 2 {
                    break; // what a stopped search answers afterwards is not specified
                }
            }
        }
        Mode::SolveAll => {
            obs = suiron::solve_all(Rc::clone(&sn));
        }
    }
    let out = w.cap.take();
    kept.nodes.push(sn);
    (obs.iter().map(|x| norm_ids(x)).collect(), out)
}

fn sess_text(s: &Sess) -> String {
    format!("{}/{:?}", queries()[s.q].0.text(), s.mode)
}

fn runs(h: &[Sess]) -> Vec<(Sess, usize)> {
    let mut r: Vec<(Sess, usize)> = vec![];
    for s in h {
        match r.last_mut() {
            Some((l, n)) if l == s => *n += 1,
            _ => r.push((*s, 1)),
        }
    }
    r
}

pub fn sess_json(h: &[Sess]) -> Value {
    // a long history is written run-length encoded (one entry with a repeat count per run)
    if h.len() > 50 {
        return json!(runs(h).iter().map(|(s, n)| json!({"q": s.q, "mode": format!("{:?}", s.mode), "repeat": n})).collect::<Vec<_>>());
    }
    json!(h.iter().map(|s| json!({"q": s.q, "mode": format!("{:?}", s.mode)})).collect::<Vec<_>>())
}

fn hist_text(h: &[Sess]) -> Vec<String> {
    if h.len() > 50 {
        return runs(h).iter().map(|(s, n)| format!("{} x {}", sess_text(s), n)).collect();
    }
    h.iter().map(sess_text).collect()
}

pub fn sess_from_json(v: &Value) -> Vec<Sess> {
    v.as_array()
        .map(|a| {
            a.iter()
                .flat_map(|x| {
                    let s = Sess {
                        q: x["q"].as_u64().unwrap_or(0) as usize,
                        mode: match x["mode"].as_str().unwrap_or("") {
                            "NextOne" => Mode::NextOne,
                            "NextAll" => Mode::NextAll,
                            "Solve" => Mode::Solve,
                            _ => Mode::SolveAll,
                        },
                    };
                    vec![s; x["repeat"].as_u64().unwrap_or(1) as usize]
                })
                .collect()
        })
        .unwrap_or_default()
}

/// Set by the worker (and by replay) before forking: run the two sessions of the history alternately.
pub static INTERLEAVED: std::sync::atomic::AtomicBool = std::sync::atomic::AtomicBool::new(false);

/// Two sessions whose queries are both constructed first and then stepped alternately (A, B, A,
/// B, ...) with next_solution or solve: each must still give its own answer sequence.
fn child_interleaved(w: &mut Worker, a: &Sess, b: &Sess) -> Value {
    let kb = build_kb(&program());
    let _ = w.cap.take();
    let sb = build_session(&kb, b);
    let sa = build_session(&kb, a);
    let sess = [(a, sa), (b, sb)];
    let mut obs: [Vec<String>; 2] = [vec![], vec![]];
    let mut ends = [0usize; 2];
    let mut calls = 0u64;
    let mut starved = false;
    let limit = |m: Mode| if m == Mode::Solve { 2 } else { 3 };
    while (0..2).any(|i| ends[i] < limit(sess[i].0.mode) && obs[i].len() < 40) {
        for i in 0..2 {
            let (s, (goal, sn)) = (&sess[i].0, &sess[i].1);
            if ends[i] >= limit(s.mode) || obs[i].len() >= 40 {
                continue;
            }
            calls += 1;
            if s.mode == Mode::Solve {
                let r = suiron::solve(Rc::clone(sn));
                if r.starts_with("Query timed out") {
                    starved = true;
                    ends[i] = 99;
                }
                if r == "No more." {
                    ends[i] += 1;
                }
                obs[i].push(r);
            } else {
                match suiron::next_solution(Rc::clone(sn)) {
                    Some(ss) => obs[i].push(decode(&goal.replace_variables(&ss)).text_ids()),
                    None => {
                        ends[i] += 1;
                        obs[i].push("None".into());
                    }
                }
            }
        }
    }
    let _ = w.cap.take();
    let mut viols = vec![];
    if !starved {
        for i in 0..2 {
            let s = sess[i].0;
            let want: Vec<String> = expected(s).0.iter().map(|x| norm_ids(x)).collect();
            let got: Vec<String> = obs[i].iter().map(|x| norm_ids(x)).collect();
            if got != want {
                let class = format!("interleaved:{}:{:?}", queries()[s.q].0.text().split('(').next().unwrap_or(""), s.mode);
                viols.push(json!({"prop": "C22", "class": class, "msg": format!("{} stepped alternately with {} (both constructed first): observed {:?}; on its own the query gives {:?}", sess_text(s), sess_text(sess[1 - i].0), got, want)}));
            }
        }
    }
    for (_, (_, sn)) in sess.iter() {
        dismantle(sn);
    }
    json!({"viols": viols, "states": [], "calls": calls, "sessions": 2, "starved": starved})
}

/// Executed in the forked child: run the history, return the report.
fn child_body(w: &mut Worker, hist: &[Sess], prop: &str, prebuild: bool) -> Value {
    let kb = build_kb(&program());
    let mut kept = Kept { nodes: vec![] };
    // `prebuild`: every query of the history is constructed (and its base node made) before the
    // first one runs, the last session's first, so that no query is constructed while an earlier-built
    // one is still waiting to run with a lower id counter than its own variables
    let mut pre: Vec<Option<(Rc<suiron::Goal>, Node)>> = hist.iter().map(|_| None).collect();
    if prebuild {
        for i in (0..hist.len()).rev() {
            pre[i] = Some(build_session(&kb, &hist[i]));
        }
    }
    let mut viols = vec![];
    let mut states = vec![];
    let mut calls = 0u64;
    let mut starved = false;
    let long = hist.len() > 200;
    let mut exp_cache: std::collections::HashMap<(usize, String), (Vec<String>, String)> = std::collections::HashMap::new();
    for (i, s) in hist.iter().enumerate() {
        let (want, want_out) = exp_cache
            .entry((s.q, format!("{:?}", s.mode)))
            .or_insert_with(|| {
                let (w0, o0) = expected(s);
                (w0.iter().map(|x| norm_ids(x)).collect(), o0)
            })
            .clone();
        let t_start = std::time::Instant::now();
        let pb = pre[i].take();
        let r = std::panic::catch_unwind(std::panic::AssertUnwindSafe(|| run_session(w, &kb, s, &mut kept, pb)));
        let took = t_start.elapsed();
        let (got, out) = match r {
            Ok(x) => x,
            Err(p) => {
                viols.push(json!({"prop": prop, "class": format!("session-panic:{:?}", s.mode), "msg": format!("session {} ({}) panicked: {}", i + 1, sess_text(s), crate::e1::panic_text(p))}));
                break;
            }
        };
        calls += got.len() as u64;
        let stopped = suiron::query_stopped();
        let st = format!("{}|{}", stopped, suiron::get_var_id());
        if !long || states.last() != Some(&st) {
            states.push(st);
        }
        if long {
            // a long history: release the finished session's nodes (an abandoned node kept alive is
            // covered by the short histories)
            if let Some(n) = kept.nodes.pop() {
                dismantle(&n);
            }
        }
        if got != want && !is_slow(s) && took.as_millis() > 400 && got.iter().any(|x| x.starts_with("Query timed out")) {
            // the machine is so loaded that a microsecond search was off the CPU for most of a
            // second: the limit really was exceeded in wall time.  Not a verdict: the parent re-runs
            // the history.
            starved = true;
            break;
        }
        if got != want || out != want_out {
            // alone (history of length 1) it is the single-session behaviour that is wrong:
            // C23 for the string modes; in a longer history it is C22
            let timed = got.iter().any(|x| x.starts_with("Query timed out")) && !want.iter().any(|x| x.starts_with("Query timed out"));
            // Under the C23 check a wrong solve / solve_all report is C23's whatever came before
            // (the statement has no "first query of the process" clause); under the C22 check it
            // is the dependence on the history that is charged.
            let string_mode = matches!(s.mode, Mode::Solve | Mode::SolveAll);
            let (p, kind) = if hist.len() == 1 || i == 0 {
                ("C23", "alone")
            } else if prop == "C23" && string_mode {
                ("C23", "after-history")
            } else {
                ("C22", "after-history")
            };
            let class = format!("{}{}:{}:{:?}{}", kind, if prebuild { "-prebuilt" } else { "" }, queries()[s.q].0.text().split('(').next().unwrap_or(""), s.mode, if timed { ":spurious-timeout" } else { "" });
            let before: Vec<String> = hist_text(&hist[..i]);
            viols.push(json!({"prop": p, "class": class, "msg": format!("session {} ({}) after {:?}: observed {:?} / output {:?}; on its own the query gives {:?} / output {:?}", i + 1, sess_text(s), before, got, out, want, want_out)}));
            if long {
                break;
            }
        }
    }
    for n in &kept.nodes {
        dismantle(n);
    }
    json!({"viols": viols, "states": states, "calls": calls, "sessions": hist.len(), "starved": starved})
}

/// Fork, run the history in the child, read its report.  The parent never
/// touches the engine, so every history starts from a pristine process image.
pub fn run_history_forked(w: &mut Worker, hist: &[Sess], prop: &str, limit_s: u64, prebuild: bool) -> Result<Value, String> {
    let mut fds = [0i32; 2];
    unsafe {
        if libc::pipe(fds.as_mut_ptr()) != 0 {
            return Err("pipe failed".into());
        }
        let _ = std::io::Write::flush(&mut std::io::stdout());
        let pid = libc::fork();
        if pid < 0 {
            return Err("fork failed".into());
        }
        if pid == 0 {
            libc::close(fds[0]);
            // the capture file is shared with the parent and earlier children: start clean
            w.cap.reset();
            let rep = if INTERLEAVED.load(std::sync::atomic::Ordering::Relaxed) && hist.len() == 2 { child_interleaved(w, &hist[0], &hist[1]) } else { child_body(w, hist, prop, prebuild) }.to_string();
            let bytes = rep.as_bytes();
            let mut off = 0;
            while off < bytes.len() {
                let n = libc::write(fds[1], bytes[off..].as_ptr() as *const libc::c_void, bytes.len() - off);
                if n <= 0 {
                    break;
                }
                off += n as usize;
            }
            libc::close(fds[1]);
            libc::_exit(0);
        }
        libc::close(fds[1]);
        // read with a deadline
        let start = std::time::Instant::now();
        let fl = libc::fcntl(fds[0], libc::F_GETFL);
        libc::fcntl(fds[0], libc::F_SETFL, fl | libc::O_NONBLOCK);
        let mut data = Vec::new();
        let mut buf = [0u8; 8192];
        let mut eof = false;
        while !eof {
            let n = libc::read(fds[0], buf.as_mut_ptr() as *mut libc::c_void, buf.len());
            if n > 0 {
                data.extend_from_slice(&buf[..n as usize]);
            } else if n == 0 {
                eof = true;
            } else {
                if start.elapsed().as_secs() > limit_s {
                    libc::kill(pid, libc::SIGKILL);
                    let mut st = 0;
                    libc::waitpid(pid, &mut st, 0);
                    libc::close(fds[0]);
                    return Err(format!("HANG: history did not finish within {} s", limit_s));
                }
                w.beat();
                std::thread::sleep(std::time::Duration::from_micros(300));
            }
        }
        libc::close(fds[0]);
        let mut st = 0;
        libc::waitpid(pid, &mut st, 0);
        if !libc::WIFEXITED(st) || libc::WEXITSTATUS(st) != 0 {
            return Err(format!("child died (wait status {:#x})", st));
        }
        serde_json::from_slice::<Value>(&data).map_err(|e| format!("unreadable child report: {}", e))
    }
}

/// All histories for a tier, in order of length.
pub fn histories(prop: &str, tier: &str, f: &mut dyn FnMut(Vec<Sess>)) {
    let al = alphabet();
    let fast: Vec<Sess> = al.iter().copied().filter(|s| !is_slow(s)).collect();
    let thorough = tier == "thorough";
    for s in &al {
        f(vec![*s]);
    }
    // long mixed histories: n cheap sessions (one epoch each), then solve / solve_all sessions across
    // the point where a 16-bit count of queries wraps; and solve / solve_all alone that often
    {
        let cheap = Sess { q: 0, mode: Mode::NextOne };
        for tail in [Sess { q: 0, mode: Mode::SolveAll }, Sess { q: 4, mode: Mode::Solve }] {
            let mut h = vec![cheap; 65_000];
            h.extend(vec![tail; if thorough { 2_000 } else { 600 }]);
            f(h);
            if prop == "C23" {
                f(vec![tail; if thorough { 70_000 } else { 3_000 }]);
            }
        }
    }
    if prop == "C23" {
        return;
    }
    // the sub-alphabet: one session of every query and of every mode
    let small: Vec<Sess> = {
        let pick = [(0, Mode::NextOne), (0, Mode::NextAll), (0, Mode::SolveAll), (1, Mode::Solve), (2, Mode::NextAll), (3, Mode::SolveAll), (4, Mode::NextOne), (5, Mode::Solve), (6, Mode::NextAll), (6, Mode::SolveAll), (7, Mode::Solve), (8, Mode::NextAll), (9, Mode::SolveAll)];
        pick.iter().map(|(q, m)| Sess { q: *q, mode: *m }).collect()
    };
    // length 2.  thorough: all pairs.  quick: all pairs in which at least one session is of the
    // sub-alphabet; a timed-out session (a second of real time each) only next to the sub-alphabet
    for a in &al {
        for b in &al {
            if !thorough {
                let (sa, sb) = (small.contains(a), small.contains(b));
                if (is_slow(a) && is_slow(b)) || (is_slow(a) && !sb) || (is_slow(b) && !sa) || (!sa && !sb && !is_slow(a) && !is_slow(b)) {
                    continue;
                }
            }
            f(vec![*a, *b]);
        }
    }
    // length 3.  quick: the sub-alphabet, plus the timed-out solve_all in first position;
    // thorough: everything with at most one slow session
    let sub: Vec<Sess> = if thorough {
        al.clone()
    } else {
        // (length 3 costs sub^3 processes: every other session of the sub-alphabet, still one of every mode)
        let mut v: Vec<Sess> = small.iter().step_by(2).cloned().collect();
        v.push(small[3]);
        v.push(Sess { q: queries().len() - 1, mode: Mode::SolveAll });
        v
    };
    for a in &sub {
        for (bi, b) in sub.iter().enumerate() {
            for (ci, c) in sub.iter().enumerate() {
                let ns = [a, b, c].iter().filter(|s| is_slow(s)).count();
                if ns > 1 || (ns == 1 && !thorough && !is_slow(a)) {
                    continue;
                }
                // quick: a history that starts with the timed-out session costs a second of real time;
                // take every other session of the sub-alphabet after it
                if ns == 1 && !thorough && (bi % 2 == 1 || ci % 2 == 1) {
                    continue;
                }
                f(vec![*a, *b, *c]);
            }
        }
    }
    // long histories: one fast session repeated n times in one process (every repetition is judged);
    // n crosses the sizes at which a counter of the global state typically wraps
    let reps: Vec<usize> = if thorough { vec![10, 100, 1000, 33_000, 70_000, 140_000] } else { vec![10, 100, 1000, 70_000] };
    for (si, s) in [Sess { q: 0, mode: Mode::NextOne }, Sess { q: 0, mode: Mode::SolveAll }, Sess { q: 6, mode: Mode::NextAll }, Sess { q: 4, mode: Mode::Solve }].iter().enumerate() {
        for &n in &reps {
            // solve / solve_all start a timer thread per call: keep those histories shorter
            let n = if matches!(s.mode, Mode::Solve | Mode::SolveAll) { n.min(if thorough { 70_000 } else { 24_000 }) } else { n };
            if si > 1 && n > 1000 && !thorough {
                continue;
            }
            f(vec![*s; n]);
        }
    }
    if thorough {
        // length 4 over the sub-alphabet (one session of every query and of every mode)
        let _ = &fast;
        for a in &small {
            for b in &small {
                for c in &small {
                    for d in &small {
                        f(vec![*a, *b, *c, *d]);
                    }
                }
            }
        }
    }
}

pub fn worker(prop: &str, tier: &str) {
    let mut w = Worker::from_env();
    // oracle guard: the reference must give the documented behaviour of the session queries
    if w.shard == 0 && w.describe.is_none() {
        let (v, _) = expected(&Sess { q: 0, mode: Mode::SolveAll });
        if v != vec!["$Z = a", "$Z = b", "$Z = c"] {
            w.emit(json!({"t":"viol","prop":prop,"class":"oracle-guard","kind":"oracle","msg":format!("reference gives {:?} for p($Z)", v),"witness":null}));
        }
    }
    if w.shard == 0 && w.describe.is_none() {
        conformance(&mut w);
    }
    let mut idx = 0u64;
    let mut n_samples = 0;
    let mut emitted: std::collections::HashMap<String, u32> = std::collections::HashMap::new();
    let wp: *mut Worker = &mut w;
    histories(prop, tier, &mut |h: Vec<Sess>| {
        let w = unsafe { &mut *wp };
        let my = idx;
        idx += 1;
        if !w.mine(my) {
            return;
        }
        if w.describe.is_some() {
            w.emit(json!({"t":"describe","class":"history","witness":{"engine":"sessions","history":sess_json(&h),"text":hist_text(&h)}}));
            return;
        }
        w.begin(my);
        let slow = h.iter().filter(|s| is_slow(s)).count() as u64;
        // every history of two or more sessions runs twice: queries constructed one by one, and all
        // queries constructed up front (a node prepared before an earlier query ran)
        for variant in 0..3 {
        let prebuild = variant == 1;
        let interleaved = variant == 2;
        // third variant: the two sessions of a history of length two stepped alternately
        if interleaved && !(h.len() == 2 && slow == 0 && h.iter().all(|s| matches!(s.mode, Mode::NextAll | Mode::Solve))) {
            continue;
        }
        INTERLEAVED.store(interleaved, std::sync::atomic::Ordering::Relaxed);
        if interleaved {
            w.count("histories.interleaved_variant", 1);
        }
        // quick: the up-front variant of a history with a timed-out session only when that session comes
        // first (it is the later sessions that a stale flag or timer can hurt)
        if prebuild && (h.len() < 2 || h.len() > 8 || (slow > 0 && tier != "thorough" && (h.len() > 2 || !is_slow(&h[0])))) {
            continue;
        }
        let mut result = run_history_forked(w, &h, prop, 300 + 5 * slow + h.len() as u64 / 20, prebuild);
        for _ in 0..5 {
            match &result {
                Ok(rep) if rep["starved"].as_bool().unwrap_or(false) => {
                    w.count("histories.rerun_because_starved", 1);
                    std::thread::sleep(std::time::Duration::from_millis(500));
                    result = run_history_forked(w, &h, prop, 300 + 5 * slow + h.len() as u64 / 20, prebuild);
                }
                _ => break,
            }
        }
        if prebuild {
            w.count("histories.prebuilt_variant", 1);
        }
        match result {
            Ok(rep) if rep["starved"].as_bool().unwrap_or(false) => {
                w.count("histories.inconclusive_starved", 1);
            }
            Ok(rep) => {
                w.count("histories", 1);
                w.count(&format!("histories.len{}", h.len()), 1);
                w.count("sessions", h.len() as u64);
                w.count("engine_calls", rep["calls"].as_u64().unwrap_or(0));
                if slow > 0 {
                    w.count("histories.with_timed_out_session", 1);
                }
                if let Some(st) = rep["states"].as_array() {
                    for s in st {
                        w.distinct("global_states", s.as_str().unwrap_or(""));
                    }
                }
                w.distinct("histories", &format!("{:?}", h));
                if let Some(vs) = rep["viols"].as_array() {
                    for v in vs {
                        let p = v["prop"].as_str().unwrap_or(prop).to_string();
                        let class = v["class"].as_str().unwrap_or("").to_string();
                        w.count(&format!("viol.{}", p), 1);
                        let n = emitted.entry(format!("{}{}", p, class)).or_insert(0);
                        *n += 1;
                        let wit = if *n <= 2 { json!({"engine":"sessions","history":sess_json(&h),"prebuilt":prebuild,"interleaved":interleaved,"text":hist_text(&h)}) } else { Value::Null };
                        w.emit(json!({"t":"viol","prop":p,"class":class,"kind":class.split(':').next().unwrap_or(""),"msg":v["msg"],"witness":wit}));
                    }
                }
                if n_samples < 2 && h.len() >= 2 {
                    n_samples += 1;
                    w.emit(json!({"t":"sample","v":{"history":hist_text(&h),"global_state_after_each_session (stopped|var id)":rep["states"]}}));
                }
            }
            Err(e) => {
                let kind = if e.starts_with("HANG") { "hang" } else { "crash" };
                w.count(&format!("viol.{}", prop), 1);
                w.emit(json!({"t":"viol","prop":prop,"class":format!("{}:history", kind),"kind":kind,"msg":format!("{} — history {:?}", e, hist_text(&h)),"witness":{"engine":"sessions","history":sess_json(&h),"prebuilt":prebuild,"interleaved":interleaved}}));
            }
        }
        }
    });
    w.done();
}

/// Real-time runs of the E5 scenarios with the genuine timer crate (forked, so
/// that the histories that follow start clean).  The supervisor checks that each
/// outcome is a member of the outcome set explored for the scenario.
fn conformance(w: &mut Worker) {
    let mut fds = [0i32; 2];
    unsafe {
        if libc::pipe(fds.as_mut_ptr()) != 0 {
            return;
        }
        let pid = libc::fork();
        if pid == 0 {
            libc::close(fds[0]);
            let mut kb = suiron::KnowledgeBase::new();
            for r in ["q(a).", "q(b).", "q(c).", "p($X) :- q($X).", "r(1).", "r(2).", "s($X) :- r($X)."] {
                suiron::add_rules(&mut kb, vec![suiron::parse_rule(r).unwrap()]);
            }
            let node = |q: &str| suiron::make_base_node(Rc::new(suiron::parse_query(q).unwrap()), &kb);
            let mut recs = vec![];
            for _ in 0..3 {
                recs.push(json!({"t":"conf","scenario":"S1","outcome":format!("S1 -> {}", suiron::solve(node("p($Z)")))}));
                recs.push(json!({"t":"conf","scenario":"S2","outcome":format!("S2 -> {:?}", suiron::solve_all(node("p($Z)")))}));
                let sn = node("p($Z)");
                let got: Vec<String> = (0..4).map(|_| suiron::solve(Rc::clone(&sn))).collect();
                recs.push(json!({"t":"conf","scenario":"S6","outcome":format!("S6 -> {:?}", got)}));
                let r1 = suiron::solve_all(node("p($Z)"));
                let r2 = suiron::solve_all(node("s($W)"));
                recs.push(json!({"t":"conf","scenario":"S4","outcome":format!("S4 -> {:?} then {:?}", r1, r2)}));
                recs.push(json!({"t":"conf","scenario":"S8","outcome":format!("S8 -> {:?} then {:?}", r1, r2)}));
            }
            // a search that is slow in real time, against the S3 outcome classes (answers returned, timed out)
            let kb2 = build_kb(&program());
            let sn = suiron::make_base_node(Rc::new(suiron::parse_query("sl($Z)").unwrap()), &kb2);
            let r = suiron::solve_all(Rc::clone(&sn));
            recs.push(json!({"t":"conf","scenario":"S3","abstract":true,"outcome":format!("S3 -> {:?}", r)}));
            let sn = suiron::make_base_node(Rc::new(suiron::parse_query("slow($Z)").unwrap()), &kb2);
            let r = suiron::solve_all(Rc::clone(&sn));
            recs.push(json!({"t":"conf","scenario":"S3","abstract":true,"outcome":format!("S3 -> {:?}", r)}));
            let text: String = recs.iter().map(|r| r.to_string() + "\n").collect();
            libc::write(fds[1], text.as_ptr() as *const libc::c_void, text.len());
            libc::_exit(0);
        }
        libc::close(fds[1]);
        let mut f = <std::fs::File as std::os::unix::io::FromRawFd>::from_raw_fd(fds[0]);
        let mut s = String::new();
        let _ = std::io::Read::read_to_string(&mut f, &mut s);
        let mut st = 0;
        libc::waitpid(pid, &mut st, 0);
        for l in s.lines() {
            if let Ok(v) = serde_json::from_str::<Value>(l) {
                w.emit(v);
            }
        }
    }
}

pub fn replay(wit: &Value) -> bool {
    let h = sess_from_json(&wit["history"]);
    println!("history: {:?}", hist_text(&h));
    let mut w = Worker::from_env();
    let mut reports = vec![];
    INTERLEAVED.store(wit["interleaved"].as_bool().unwrap_or(false), std::sync::atomic::Ordering::Relaxed);
    for round in 0..2 {
        match run_history_forked(&mut w, &h, "C22", 60, wit["prebuilt"].as_bool().unwrap_or(false)) {
            Ok(rep) => {
                eprintln!("run {}: global state after each session {}", round, rep["states"]);
                for v in rep["viols"].as_array().cloned().unwrap_or_default() {
                    eprintln!("run {}: VERDICT {} {} : {}", round, v["prop"].as_str().unwrap_or(""), v["class"].as_str().unwrap_or(""), v["msg"].as_str().unwrap_or(""));
                }
                reports.push(rep["viols"].to_string());
            }
            Err(e) => {
                eprintln!("run {}: {}", round, e);
                reports.push(e);
            }
        }
    }
    if reports[0] != reports[1] {
        eprintln!("NON-DETERMINISTIC: the two runs differ");
    }
    let clean = reports[0] == "[]";
    if clean {
        eprintln!("VERDICT: no violation on this history");
    }
    clean
}
