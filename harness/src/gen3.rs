//! E3 — builtin-space generators: every argument tuple over small value
//! domains, each as a one-rule program run through the real solver and judged
//! by the reference interpreter (whose built-ins are harness/src/refbuiltins.rs).
//! Family names ending in `@text` / `@infix` are built through the rule parser.

use crate::gen::Case;
use crate::prog::*;
use crate::refbuiltins::{self as rb, Rel};
use crate::refunify::Sub;
use crate::term::*;

fn a() -> T {
    atom("a")
}
fn b() -> T {
    atom("b")
}

/// (pre-goals, operand) presenting `value` through a chain of k variables.
fn chain(value: &T, k: usize, tag: &str) -> (Vec<G>, T) {
    match k {
        0 => (vec![], value.clone()),
        1 => {
            let v1 = v(&format!("$A{}", tag));
            (vec![G::Unify(v1.clone(), value.clone())], v1)
        }
        _ => {
            let v1 = v(&format!("$A{}", tag));
            let v2 = v(&format!("$B{}", tag));
            (vec![G::Unify(v1.clone(), value.clone()), G::Unify(v2.clone(), v1)], v2)
        }
    }
}

fn tuples<X: Clone>(dom: &[X], n: usize) -> Vec<Vec<X>> {
    let mut out: Vec<Vec<X>> = vec![vec![]];
    for _ in 0..n {
        let mut next = vec![];
        for t in &out {
            for d in dom {
                let mut t2 = t.clone();
                t2.push(d.clone());
                next.push(t2);
            }
        }
        out = next;
    }
    out
}

fn one_rule(family: &'static str, head_args: Vec<T>, body: Vec<G>, query_args: Vec<T>, f: &mut dyn FnMut(Case)) {
    let body = if body.len() == 1 { body.into_iter().next().unwrap() } else { G::And(body) };
    let prog = vec![rule("p", head_args, body)];
    f(Case { family, prog, queries: vec![cplx("p", query_args)] });
}

pub fn numbers(big: bool) -> Vec<T> {
    let two53 = 1i64 << 53;
    let mut d = vec![
        T::Int(0),
        T::Int(1),
        T::Int(-1),
        T::Int(2),
        T::Int(3),
        T::Int(7),
        T::Int(-7),
        T::Int(two53),
        T::Int(two53 + 1),
        T::Int(i64::MIN),
        T::Int(i64::MAX),
        T::Float(0.0),
        T::Float(-0.0),
        T::Float(0.5),
        T::Float(1.5),
        T::Float(-2.25),
        T::Float(two53 as f64),
        T::Float(1e300),
        T::Float(f64::INFINITY),
    ];
    if big {
        d.extend(vec![T::Int(10), T::Int(-3), T::Float(3.0), T::Float(1e-300), T::Float(f64::NEG_INFINITY)]);
    }
    d
}

const OPS: [&str; 4] = ["add", "subtract", "multiply", "divide"];

/// C12: arithmetic.
pub fn arith(level: u8, f: &mut dyn FnMut(Case)) {
    let dom = numbers(level >= 2);
    let small = vec![T::Int(0), T::Int(1), T::Int(-7), T::Int(3), T::Int(i64::MAX), T::Float(0.5), T::Float(-2.25), T::Float(1e300)];
    let mut all: Vec<Vec<T>> = vec![];
    all.extend(tuples(&dom, 1));
    all.extend(tuples(&dom, 2));
    if level >= 1 {
        all.extend(tuples(&dom, 3));
        all.extend(tuples(if level >= 2 { &dom[..12] } else { &small[..] }, 4));
    } else {
        all.extend(tuples(&small, 3));
    }
    for op in OPS {
        for tup in &all {
            // literal arguments, function on the right / on the left of `=`
            one_rule("arith", vec![v("$O")], vec![G::Unify(v("$O"), func(op, tup.clone()))], vec![v("$Z")], f);
            one_rule("arith", vec![v("$O")], vec![G::Unify(func(op, tup.clone()), v("$O"))], vec![v("$Z")], f);
            // through bound variables (first argument through two steps)
            let mut pre = vec![];
            let mut args = vec![];
            for (i, t) in tup.iter().enumerate() {
                let (p, o) = chain(t, if i == 0 { 2 } else { 1 }, &i.to_string());
                pre.extend(p);
                args.push(o);
            }
            pre.push(G::Unify(v("$O"), func(op, args)));
            one_rule("arith", vec![v("$O")], pre, vec![v("$Z")], f);
            // unified with a constant: the value itself, and a different one
            if tup.len() <= 2 {
                let nums = rb::numbers(tup, &Sub::new());
                if let Ok(ns) = nums {
                    if let Ok(val) = rb::arith(op, &ns) {
                        let other = match &val {
                            T::Int(i) => T::Int(i.wrapping_add(1)),
                            T::Float(x) => T::Float(if x.is_finite() { x + 1.0 + x.abs() } else { 0.0 }),
                            o => o.clone(),
                        };
                        let swapped_type = match &val {
                            T::Int(i) => T::Float(*i as f64),
                            T::Float(x) if x.fract() == 0.0 && x.abs() < 1e15 => T::Int(*x as i64),
                            o => o.clone(),
                        };
                        for (c, _) in [(val.clone(), true), (other, false), (swapped_type, false)] {
                            one_rule("arith", vec![atom("ok")], vec![G::Unify(func(op, tup.clone()), c.clone())], vec![v("$Z")], f);
                            one_rule("arith", vec![atom("ok")], vec![G::Unify(c.clone(), func(op, tup.clone()))], vec![v("$Z")], f);
                        }
                    }
                }
            }
            // infix spelling through the parser (binary only; literals the
            // source syntax can write)
            if tup.len() == 2 && tup.iter().all(writable_number) {
                one_rule("arith@infix", vec![v("$O")], vec![G::Unify(v("$O"), func(op, tup.clone()))], vec![v("$Z")], f);
                let (p0, o0) = chain(&tup[0], 1, "0");
                let mut pre = p0;
                pre.push(G::Unify(v("$O"), func(op, vec![o0, tup[1].clone()])));
                one_rule("arith@infix", vec![v("$O")], pre, vec![v("$Z")], f);
            }
        }
    }
}

/// Numbers the source syntax can denote unambiguously: non-negative, and
/// floats with a plain decimal expansion.
fn writable_number(t: &T) -> bool {
    match t {
        T::Int(i) => *i >= 0,
        T::Float(x) => x.is_finite() && *x >= 0.0 && !x.is_sign_negative() && x.abs() < 1e15 && (x.fract() != 0.0 || *x < 1e15),
        _ => false,
    }
}

pub fn cmp_domain() -> Vec<T> {
    let two53 = 1i64 << 53;
    vec![
        T::Int(0),
        T::Int(1),
        T::Int(-1),
        T::Int(two53),
        T::Int(two53 + 1),
        T::Int(i64::MIN),
        T::Int(i64::MAX),
        T::Float(0.0),
        T::Float(-0.0),
        T::Float(0.5),
        T::Float(1.5),
        T::Float(two53 as f64),
        T::Float(1e300),
        T::Float(f64::INFINITY),
        T::Float(f64::NEG_INFINITY),
        a(),
        b(),
        atom(""),
        atom("A"),
        atom("é"),
        atom("two words"),
        atom(","),
        atom("1"),
        list(vec![]),
        list(vec![a()]),
        cplx("f", vec![a()]),
        v("$U"),
        T::Anon,
    ]
}

fn writable_operand(t: &T) -> bool {
    match t {
        T::Atom(s) => !s.is_empty() && s.chars().all(|c| c.is_alphabetic()) ,
        T::Int(_) | T::Float(_) => writable_number(t),
        T::Var(..) | T::Anon => true,
        T::List(es, None) => es.iter().all(writable_operand),
        T::Cplx(_, a) => a.iter().all(writable_operand),
        _ => false,
    }
}

/// C14: comparisons.
pub fn cmp(level: u8, f: &mut dyn FnMut(Case)) {
    let dom = cmp_domain();
    for x in &dom {
        for y in &dom {
            for rel in Rel::ALL {
                for k in 0..=2usize {
                    if level == 0 && k == 2 {
                        continue;
                    }
                    let (p1, o1) = chain(x, k, "x");
                    let (p2, o2) = chain(y, if k == 2 { 1 } else { k }, "y");
                    let mut body = p1;
                    body.extend(p2);
                    body.push(G::Cmp(rel, o1, o2));
                    // head shows the unbound operand: it must stay unbound
                    one_rule("cmp", vec![atom("ok"), v("$U")], body, vec![v("$Z"), v("$W")], f);
                }
                if writable_operand(x) && writable_operand(y) {
                    one_rule("cmp@infix", vec![atom("ok"), v("$U")], vec![G::Cmp(rel, x.clone(), y.clone())], vec![v("$Z"), v("$W")], f);
                    one_rule("cmp@text", vec![atom("ok"), v("$U")], vec![G::Cmp(rel, x.clone(), y.clone())], vec![v("$Z"), v("$W")], f);
                }
            }
        }
    }
}

/// Values used as `append` inputs and as lists for count: (pre-goals, operand).
fn list_values(tag: &str) -> Vec<(Vec<G>, T)> {
    let t1 = v(&format!("$T{}", tag));
    let t2 = v(&format!("$S{}", tag));
    let e1 = v(&format!("$E{}", tag));
    let v1 = v(&format!("$V{}", tag));
    vec![
        (vec![], a()),
        (vec![], T::Int(1)),
        (vec![], T::Float(1.5)),
        (vec![], cplx("f", vec![a()])),
        (vec![], list(vec![])),
        (vec![], list(vec![a()])),
        (vec![], list(vec![a(), b()])),
        (vec![], list(vec![list(vec![])])),
        (vec![], list(vec![list(vec![a()]), b()])),
        (vec![], list(vec![a(), list(vec![])])),
        (vec![G::Unify(t1.clone(), list(vec![b()]))], list_t(vec![a()], t1.clone())),
        (vec![G::Unify(t2.clone(), list(vec![]))], list_t(vec![a()], t2.clone())),
        (vec![G::Unify(v1.clone(), a())], v1.clone()),
        (vec![G::Unify(v1.clone(), list(vec![a()]))], v1.clone()),
        (vec![G::Unify(v1.clone(), list(vec![]))], v1.clone()),
        (vec![G::Unify(e1.clone(), b())], list(vec![e1.clone(), a()])),
        (vec![G::Unify(t1.clone(), list_t(vec![b()], t2.clone())), G::Unify(t2.clone(), list(vec![atom("c")]))], list_t(vec![a()], t1.clone())),
        // chains of two tail variables whose last link is not one element long
        (vec![G::Unify(t2.clone(), list(vec![atom("c"), atom("d")])), G::Unify(t1.clone(), list_t(vec![b()], t2.clone()))], list_t(vec![a()], t1.clone())),
        (vec![G::Unify(t1.clone(), list_t(vec![b(), atom("c")], t2.clone())), G::Unify(t2.clone(), list(vec![]))], list_t(vec![a()], t1.clone())),
    ]
}

/// C16: append.
pub fn append(level: u8, f: &mut dyn FnMut(Case)) {
    let n_max = if level == 0 { 2 } else { 3 };
    for n in 1..=n_max {
        let doms: Vec<Vec<(Vec<G>, T)>> = (0..n).map(|i| list_values(&i.to_string())).collect();
        let mut idx = vec![0usize; n];
        'outer: loop {
            let mut pre = vec![];
            let mut ins = vec![];
            for (i, &j) in idx.iter().enumerate() {
                pre.extend(doms[i][j].0.clone());
                ins.push(doms[i][j].1.clone());
            }
            let mut args = ins.clone();
            args.push(v("$O"));
            let mut body = pre.clone();
            body.push(G::Bip("append".into(), args));
            one_rule("append", vec![v("$O")], body, vec![v("$Z")], f);
            for i in (0..n).rev() {
                idx[i] += 1;
                if idx[i] < doms[i].len() {
                    continue 'outer;
                }
                idx[i] = 0;
            }
            break;
        }
    }
    // four inputs over a reduced domain
    if level >= 1 {
        let red: Vec<usize> = vec![0, 4, 6, 7, 10, 13];
        for t in tuples(&red, 4) {
            let mut pre = vec![];
            let mut ins = vec![];
            for (i, &j) in t.iter().enumerate() {
                let d = list_values(&i.to_string());
                pre.extend(d[j].0.clone());
                ins.push(d[j].1.clone());
            }
            ins.push(v("$O"));
            pre.push(G::Bip("append".into(), ins));
            one_rule("append", vec![v("$O")], pre, vec![v("$Z")], f);
        }
    }
    // two inputs that reach the same bound tail variable; the same bound-tail list passed twice
    for tl in [list(vec![atom("c"), atom("d")]), list(vec![]), list(vec![atom("c")])] {
        let pre = vec![G::Unify(v("$T"), tl.clone())];
        let shapes: Vec<Vec<T>> = vec![
            vec![list_t(vec![a()], v("$T")), list_t(vec![b()], v("$T"))],
            vec![list_t(vec![a()], v("$T")), v("$T")],
            vec![v("$T"), list_t(vec![a()], v("$T")), atom("x")],
        ];
        for ins in shapes {
            let mut body = pre.clone();
            let mut args = ins.clone();
            args.push(v("$O"));
            body.push(G::Bip("append".into(), args));
            one_rule("append", vec![v("$O")], body, vec![v("$Z")], f);
        }
        let mut body = pre.clone();
        body.push(G::Unify(v("$L"), list_t(vec![a()], v("$T"))));
        body.push(G::Bip("append".into(), vec![v("$L"), atom("x"), v("$L"), v("$O")]));
        one_rule("append", vec![v("$O")], body, vec![v("$Z")], f);
    }
    // the tail variable gets its list through an alias: aliased first and bound afterwards, bound
    // first and aliased afterwards (both directions), bound through another list's tail, and bound
    // by head unification when the list is passed to a rule through a variable
    for tl in [list(vec![b(), atom("c")]), list(vec![]), list(vec![b()])] {
        let ways: Vec<Vec<G>> = vec![
            vec![G::Unify(v("$T"), v("$U")), G::Unify(v("$U"), tl.clone())],
            vec![G::Unify(v("$U"), v("$T")), G::Unify(v("$U"), tl.clone())],
            vec![G::Unify(v("$U"), tl.clone()), G::Unify(v("$T"), v("$U"))],
            vec![G::Unify(v("$T"), v("$U")), G::Unify(v("$U"), v("$W")), G::Unify(v("$W"), tl.clone())],
            vec![G::Unify(v("$T"), v("$U")), G::Unify(list_t(vec![atom("x")], v("$U")), list_t(vec![atom("x")], tl.clone()))],
        ];
        for pre in ways {
            for ins in [vec![list_t(vec![a()], v("$T")), list(vec![atom("end")])], vec![list(vec![atom("s")]), list_t(vec![a()], v("$T"))], vec![v("$T"), list_t(vec![a()], v("$T"))]] {
                let mut body = pre.clone();
                let mut args = ins.clone();
                args.push(v("$O"));
                body.push(G::Bip("append".into(), args));
                one_rule("append", vec![v("$O")], body, vec![v("$Z")], f);
            }
        }
        let p: Program = vec![
            rule("joined", vec![v("$H"), v("$T"), v("$Out")], G::Bip("append".into(), vec![list_t(vec![v("$H")], v("$T")), list(vec![atom("end")]), v("$Out")])),
            rule("p", vec![v("$O")], G::And(vec![G::Unify(v("$L"), tl.clone()), call("joined", vec![a(), v("$L"), v("$O")])])),
            rule("p2", vec![v("$O")], call("joined", vec![a(), tl.clone(), v("$O")])),
        ];
        f(Case { family: "append", prog: p, queries: vec![cplx("p", vec![v("$Z")]), cplx("p2", vec![v("$Z")]), cplx("joined", vec![b(), tl.clone(), v("$Z")])] });
    }
    // Out given as a list: equal, different, pattern with tail
    let outs = vec![list(vec![a(), b()]), list(vec![a()]), list_t(vec![v("$H")], v("$R")), list(vec![]), a(), list(vec![a(), list(vec![])])];
    let d0 = list_values("0");
    let d1 = list_values("1");
    for x in &d0 {
        for y in &d1 {
            for o in &outs {
                let mut body = x.0.clone();
                body.extend(y.0.clone());
                body.push(G::Bip("append".into(), vec![x.1.clone(), y.1.clone(), o.clone()]));
                one_rule("append", vec![v("$H"), v("$R")], body, vec![v("$Z"), v("$W")], f);
            }
        }
    }
}

/// C17: count.
pub fn count(_level: u8, f: &mut dyn FnMut(Case)) {
    for k in 0..=1usize {
        for (pre, l) in list_values("0") {
            let (p2, o) = chain(&l, k, "c");
            let mut body = pre.clone();
            body.extend(p2);
            let mut b1 = body.clone();
            b1.push(G::Bip("count".into(), vec![o.clone(), v("$N")]));
            one_rule("count", vec![v("$N")], b1, vec![v("$Z")], f);
            for n in 0..=3 {
                let mut b2 = body.clone();
                b2.push(G::Bip("count".into(), vec![o.clone(), T::Int(n)]));
                one_rule("count", vec![atom("ok")], b2, vec![v("$Z")], f);
            }
        }
    }
    // longer lists, nested tails
    for n in 0..=5usize {
        let es: Vec<T> = (0..n).map(|i| if i % 2 == 0 { a() } else { list(vec![b()]) }).collect();
        one_rule("count", vec![v("$N")], vec![G::Bip("count".into(), vec![list(es.clone()), v("$N")])], vec![v("$Z")], f);
        let mut body = vec![G::Unify(v("$T"), list(es.clone()))];
        body.push(G::Bip("count".into(), vec![list_t(vec![a(), b()], v("$T")), v("$N")]));
        one_rule("count", vec![v("$N")], body, vec![v("$Z")], f);
    }
}

/// C17: include / exclude.
pub fn filter(level: u8, f: &mut dyn FnMut(Case)) {
    let filters = vec![a(), T::Anon, cplx("f", vec![T::Anon]), v("$F"), cplx("f", vec![v("$F")]), T::Int(1), list_t(vec![T::Anon], T::Anon), b(), cplx("f", vec![a()])];
    let elems = vec![a(), b(), cplx("f", vec![a()]), cplx("f", vec![b()]), T::Int(1), list(vec![a()])];
    let n_max = if level == 0 { 2 } else { 3 };
    let mut lists: Vec<(Vec<G>, T)> = vec![(vec![], list(vec![]))];
    for n in 1..=n_max {
        for t in tuples(&elems, n) {
            lists.push((vec![], list(t)));
        }
    }
    // bound tails, elements that are bound variables, list through a variable
    lists.push((vec![G::Unify(v("$T"), list(vec![b(), cplx("f", vec![a()])]))], list_t(vec![a()], v("$T"))));
    lists.push((vec![G::Unify(v("$T"), list(vec![]))], list_t(vec![a(), b()], v("$T"))));
    lists.push((vec![G::Unify(v("$E"), a())], list(vec![v("$E"), b()])));
    lists.push((vec![G::Unify(v("$E"), cplx("f", vec![b()]))], list(vec![b(), v("$E")])));
    lists.push((vec![G::Unify(v("$L"), list(vec![a(), b(), a()]))], v("$L")));
    lists.push((vec![], list(vec![list(vec![]), a(), list(vec![])])));
    for fl in &filters {
        for (pre, l) in &lists {
            for name in ["include", "exclude"] {
                let mut body = pre.clone();
                body.push(G::Bip(name.into(), vec![fl.clone(), l.clone(), v("$O")]));
                // $F in the head: the filter must not bind it
                one_rule("filter", vec![v("$O"), v("$F")], body, vec![v("$Z"), v("$W")], f);
            }
        }
    }
}

/// C17: functor.
pub fn functor(_level: u8, f: &mut dyn FnMut(Case)) {
    let terms: Vec<(Vec<G>, T)> = vec![
        (vec![], cplx("f", vec![])),
        (vec![], cplx("foo", vec![a()])),
        (vec![], cplx("foobar", vec![a(), b()])),
        (vec![], cplx("f", vec![a(), b(), atom("c")])),
        (vec![], cplx("g", vec![a(), b(), atom("c"), atom("d")])),
        (vec![G::Unify(v("$V"), cplx("foo", vec![a()]))], v("$V")),
        (vec![G::Unify(v("$V"), cplx("foo", vec![a()])), G::Unify(v("$V2"), v("$V"))], v("$V2")),
        (vec![], a()),
        (vec![], list(vec![a()])),
        (vec![], v("$Unbound")),
    ];
    let pats = vec![atom("foo"), atom("foo*"), atom("f*"), atom("*"), v("$P"), atom("bar"), atom("foobar"), atom("fo"), T::Int(1), cplx("foo", vec![])];
    let ars: Vec<Option<T>> = vec![None, Some(v("$A")), Some(T::Int(0)), Some(T::Int(1)), Some(T::Int(2)), Some(T::Int(3)), Some(T::Int(4)), Some(T::Float(1.0))];
    for (pre, t) in &terms {
        for p in &pats {
            for ar in &ars {
                let mut args = vec![t.clone(), p.clone()];
                if let Some(x) = ar {
                    args.push(x.clone());
                }
                let mut body = pre.clone();
                body.push(G::Bip("functor".into(), args));
                one_rule("functor", vec![v("$P"), v("$A")], body, vec![v("$Z"), v("$W")], f);
            }
        }
        // the pattern (and the arity) reach functor() through a bound variable
        for p in [atom("foo"), atom("foo*"), atom("f*"), atom("bar*"), atom("fo")] {
            for ar in [None, Some(T::Int(1)), Some(T::Int(2))] {
                let mut body = pre.clone();
                body.push(G::Unify(v("$Q"), p.clone()));
                let mut args = vec![t.clone(), v("$Q")];
                if let Some(x) = &ar {
                    body.push(G::Unify(v("$N"), x.clone()));
                    args.push(v("$N"));
                }
                body.push(G::Bip("functor".into(), args));
                one_rule("functor", vec![atom("ok"), v("$Q")], body, vec![v("$Z"), v("$W")], f);
            }
        }
    }
}

/// C17: join.
pub fn join(level: u8, f: &mut dyn FnMut(Case)) {
    let words = vec![a(), b(), atom(","), atom("."), atom("?"), atom("!"), T::Int(1), T::Float(1.5), cplx("f", vec![a()]), atom("two words")];
    let n_max = if level == 0 { 2 } else { 3 };
    for n in 1..=n_max {
        for t in tuples(&words, n) {
            // as arguments
            one_rule("join", vec![v("$O")], vec![G::Unify(v("$O"), func("join", t.clone()))], vec![v("$Z")], f);
            if n <= 2 || level >= 1 {
                // as one list argument, and as a list behind a variable
                one_rule("join", vec![v("$O")], vec![G::Unify(v("$O"), func("join", vec![list(t.clone())]))], vec![v("$Z")], f);
                one_rule("join", vec![v("$O")], vec![G::Unify(v("$L"), list(t.clone())), G::Unify(func("join", vec![v("$L")]), v("$O"))], vec![v("$Z")], f);
            }
            if n == 2 {
                // first word through a bound variable: as an argument, as a list element, behind a bound tail
                let pre = G::Unify(v("$E"), t[0].clone());
                one_rule("join", vec![v("$O")], vec![pre.clone(), G::Unify(v("$O"), func("join", vec![v("$E"), t[1].clone()]))], vec![v("$Z")], f);
                one_rule("join", vec![v("$O")], vec![pre.clone(), G::Unify(v("$O"), func("join", vec![list(vec![v("$E"), t[1].clone()])]))], vec![v("$Z")], f);
                one_rule(
                    "join",
                    vec![v("$O")],
                    vec![G::Unify(v("$T"), list(vec![t[1].clone()])), G::Unify(v("$O"), func("join", vec![list_t(vec![t[0].clone()], v("$T"))]))],
                    vec![v("$Z")],
                    f,
                );
                // compared with a constant
                one_rule("join", vec![atom("ok")], vec![G::Unify(func("join", t.clone()), atom("a b"))], vec![v("$Z")], f);
            }
        }
    }
}
