//! E6 — ub-corpus (C24).  A bounded-exhaustive corpus of call histories is
//! written to a file and executed by `harness_miri` (binary `vm`) under Miri,
//! once with Stacked Borrows and once with Tree Borrows; Miri is the
//! per-execution monitor "this execution had no undefined behaviour"
//! (aliasing, out-of-bounds, use-after-free, data races between the solver and
//! the timer thread).  The enumeration is what decides the property within the
//! bound; this module plans, shards, restarts after a diagnostic and reports.

use crate::gen::{self, Case};
use crate::prog::*;
use crate::supervise::{Crash, Outcome};
use serde_json::json;
use std::collections::BTreeMap;
use std::io::Read;
use std::process::{Command, Stdio};
use std::time::{Duration, Instant};

fn clause_text(c: &Clause) -> String {
    c.text().replace('\t', " ")
}

fn expressible(g: &G) -> bool {
    match g {
        // the text syntax has no way to write not((a, b))
        G::Not(inner) => !matches!(**inner, G::And(_) | G::Or(_)) && expressible(inner),
        G::Time(inner) => !matches!(**inner, G::And(_) | G::Or(_)) && expressible(inner),
        G::And(gs) | G::Or(gs) => gs.iter().all(expressible),
        _ => true,
    }
}

pub struct Corpus {
    pub lines: Vec<String>,
    pub with_cut: u64,
    pub with_not: u64,
    pub with_timer: u64,
    pub queries: u64,
    pub families: BTreeMap<String, u64>,
}

pub fn corpus(tier: &str) -> Corpus {
    let thorough = tier == "thorough";
    let mut c = Corpus { lines: vec![], with_cut: 0, with_not: 0, with_timer: 0, queries: 0, families: BTreeMap::new() };
    let mut counter: BTreeMap<&'static str, u64> = BTreeMap::new();
    // (family generator, level, keep one program in `stride`, queries kept per program)
    let mut add = |c: &mut Corpus, case: Case, stride: u64, max_q: usize| {
        let n = counter.entry(case.family).or_insert(0);
        let k = *n;
        *n += 1;
        if k % stride != 0 {
            return;
        }
        if !case.prog.iter().all(|cl| cl.body.as_ref().map_or(true, expressible)) {
            return;
        }
        let rules: Vec<String> = case.prog.iter().map(clause_text).collect();
        let has_cut = case.prog.iter().any(|cl| cl.body.as_ref().map_or(false, |b| b.has_cut()));
        let has_not = case.prog.iter().any(|cl| cl.body.as_ref().map_or(false, |b| b.has_not()));
        // the entry point rotates: mostly next_solution, some solve_all / solve / file loading
        let mode = match (k / stride) % 11 {
            3 => "solve_all",
            7 => "solve",
            9 => "load",
            _ => "next",
        };
        let qs: Vec<String> = case.queries.iter().take(max_q).map(|q| q.text()).collect();
        c.with_timer += (mode == "solve" || mode == "solve_all") as u64;
        c.with_cut += has_cut as u64;
        c.with_not += has_not as u64;
        c.queries += qs.len() as u64;
        *c.families.entry(case.family.to_string()).or_insert(0) += 1;
        c.lines.push(format!("{}\t{}\t{}", mode, qs.join(" ;; "), rules.join("\t")));
    };
    if thorough {
        gen::cut(0, &mut |cs| add(&mut c, cs, 1, 6));
        gen::cut(1, &mut |cs| add(&mut c, cs, 97, 4));
        gen::not(1, &mut |cs| add(&mut c, cs, 61, 2));
        gen::core(1, &mut |cs| add(&mut c, cs, 2003, 2));
        gen::lists(1, &mut |cs| add(&mut c, cs, 3, 4));
        gen::output(1, &mut |cs| add(&mut c, cs, 43, 2));
        gen::builtins(1, &mut |cs| add(&mut c, cs, 31, 2));
        gen::nfacts(1, &mut |cs| add(&mut c, cs, 31, 2));
    } else {
        // sized for about a minute on 16 cores (an interpreted case takes seconds)
        gen::cut(0, &mut |cs| add(&mut c, cs, 3, 3));
        gen::not(0, &mut |cs| add(&mut c, cs, 53, 1));
        gen::core(0, &mut |cs| add(&mut c, cs, 83, 1));
        gen::lists(0, &mut |cs| add(&mut c, cs, 101, 3));
        gen::output(0, &mut |cs| add(&mut c, cs, 47, 1));
        gen::builtins(0, &mut |cs| add(&mut c, cs, 59, 1));
        gen::nfacts(0, &mut |cs| add(&mut c, cs, 37, 1));
    }
    // a cut directly inside an alternative of a disjunction (first, middle, last; then failing or
    // succeeding; top-level or in a group to the right of a goal with several solutions)
    let alts = ["$X = 1, !, fail", "$X = 1, !", "!, $X = 1", "q($X), !, r($X)", "!, fail"];
    for (i, a1) in alts.iter().enumerate() {
        if !thorough && i % 2 == 1 {
            continue;
        }
        let shapes = [
            format!("pick($X) :- {}; $X = 2.", a1),
            format!("pick($X) :- $X = 0; {}; $X = 2.", a1),
            format!("pick($X) :- $X = 0; {}.", a1),
            format!("pick($X) :- q($Y), ({}; $X = 2).", a1),
        ];
        for sh in shapes.iter() {
            c.with_cut += 1;
            c.queries += 3;
            *c.families.entry("cut-in-disjunction".into()).or_insert(0) += 1;
            c.lines.push(format!("next\tpick($Z) ;; pick(2) ;; top($Z)\tq(a).\tq(b).\tr(b).\t{}\tpick(9).\ttop($X) :- pick($X), pick($Y).", sh));
        }
    }
    // a variable aliased to a newer, still unbound variable (or the other way round) and then
    // dereferenced by a built-in: the binding chain leaves the part of the substitution set
    // that has been written so far
    let bips = [
        "$X == 1", "$X < 2", "$X >= $Y", "print($X), nl", "print_list([$X, a])", "count([$X, b], $N)", "append($X, [a], $O)",
        "functor($X, $F)", "include($X, [a, b], $O)", "$O = join($X, b)", "$Y = f($Z), $X == 1", "not($X == 1)",
    ];
    for (i, b) in bips.iter().enumerate() {
        if !thorough && i % 2 == 1 {
            continue;
        }
        for alias in ["$X = $Y", "$Y = $X", "$X = $Y, $Y = $W", "$W = $Y, $X = $W"] {
            c.queries += 2;
            *c.families.entry("alias-then-builtin".into()).or_insert(0) += 1;
            c.lines.push(format!("next\tcheck($Q) ;; check(1)\tcheck($X) :- {}, {}.", alias, b));
        }
    }
    // scale: the sizes at which an inline buffer, a bit mask or a small counter overflows
    // (one line per group of queries, so that the shards share the cost)
    for n in if thorough { vec![5usize, 9, 17, 33, 65] } else { vec![9usize] } {
        let ints: Vec<String> = (1..=n).map(|i| i.to_string()).collect();
        let vars: Vec<String> = (1..=n).map(|i| format!("$V{}", i)).collect();
        let facts: Vec<String> = (1..=n).map(|i| format!("t({}).", i)).collect();
        let goals: Vec<String> = (1..=n).map(|i| if i == n / 2 { "!".to_string() } else if i < n / 2 { format!("t($Y{})", i) } else { format!("t({})", i) }).collect();
        let (ints_s, vars_s) = (ints.join(", "), vars.join(", "));
        let groups: Vec<(usize, String)> = vec![
            (
                3,
                format!(
                    "next\tw({ints}) ;; w({vars}) ;; chain($A, $B)\tw({vars}).\tchain($V1, $V{n}) :- {links}.\t{linkfacts}",
                    ints = ints_s,
                    vars = vars_s,
                    n = n,
                    links = (1..n).map(|i| format!("link($V{}, $V{})", i, i + 1)).collect::<Vec<_>>().join(", "),
                    linkfacts = (1..n).map(|i| format!("link({}, {}).", i, i + 1)).collect::<Vec<_>>().join("\t")
                ),
            ),
            (
                2,
                format!(
                    "next\tlen([{ints}], $N) ;; app($X, $Y, [{few}])\tlen([], 0).\tlen([$_ | $T], $N) :- len($T, $M), $N = $M + 1.\tapp([], $L, $L).\tapp([$H | $T], $L, [$H | $R]) :- app($T, $L, $R).",
                    ints = ints_s,
                    few = ints.iter().take(5).cloned().collect::<Vec<_>>().join(", ")
                ),
            ),
            (2, format!("next\tp($Z) ;; cutk($Z)\t{facts}\tp($X) :- t($X), $X >= {n}.\tcutk($X) :- {goals}, t($X).\tcutk(0).", facts = facts.join("\t"), n = n, goals = goals.join(", "))),
            (
                3,
                format!(
                    "next\tdeepl($Z) ;; deepc({deepc}) ;; deepg($Z)\tt(1).\tdeepl($X) :- $X = {deepl}.\tdeepc($X) :- $X = {deepc}.\tdeepg($X) :- {deepg}.",
                    deepl = format!("{}a{}", "[".repeat(n), "]".repeat(n)),
                    deepc = format!("{}a{}", "f(".repeat(n), ")".repeat(n)),
                    deepg = format!("{}t($X){}", "(".repeat(n), ")".repeat(n))
                ),
            ),
        ];
        c.with_cut += 1;
        for (nq, line) in groups {
            c.queries += nq as u64;
            *c.families.entry("scale".into()).or_insert(0) += 1;
            c.lines.push(line);
        }
    }
    // timer histories: the timer thread fires in the middle of a search, then further queries run
    let follow: Vec<(&str, Vec<&str>)> = vec![
        ("p($Z)", vec!["q(a).", "q(b).", "p($X) :- q($X)."]),
        ("p($Z)", vec!["q(a).", "q(b).", "r(b).", "p($X) :- q($X), !, r($X).", "p(c)."]),
        ("p($Z)", vec!["q(a).", "q(b).", "r(b).", "p($X) :- q($X), not(r($X))."]),
    ];
    for (q, rules) in follow.iter().take(if thorough { 3 } else { 2 }) {
        c.with_timer += 1;
        c.queries += 2;
        *c.families.entry("timer-fires-mid-search".into()).or_insert(0) += 1;
        c.lines.push(format!("slow_then\t{}\t{}", q, rules.join("\t")));
    }
    c
}

fn miri_dir() -> std::path::PathBuf {
    crate::report::verif_dir().join("harness_miri")
}

struct Run {
    child: std::process::Child,
    rx: std::sync::mpsc::Receiver<(String, String)>,
    shard: usize,
    model: &'static str,
    resume_after: i64,
    started: Instant,
}

fn spawn(corpus: &std::path::Path, shard: usize, nshards: usize, resume_after: i64, model: &'static str) -> std::io::Result<Run> {
    let flags = format!("-Zmiri-disable-isolation -Zmiri-ignore-leaks{}", if model == "tree" { " -Zmiri-tree-borrows" } else { "" });
    let mut cmd = Command::new("cargo");
    cmd.current_dir(miri_dir())
        .args(["+nightly", "miri", "run", "--offline", "--quiet", "--"])
        .arg(corpus)
        .args([shard.to_string(), nshards.to_string(), resume_after.to_string()])
        .env("MIRIFLAGS", flags)
        .env("CARGO_NET_OFFLINE", "true")
        .env_remove("RUSTFLAGS")
        .stdin(Stdio::null())
        .stdout(Stdio::piped())
        .stderr(Stdio::piped());
    let mut child = cmd.spawn()?;
    let mut so = child.stdout.take().unwrap();
    let mut se = child.stderr.take().unwrap();
    let (tx, rx) = std::sync::mpsc::channel();
    std::thread::spawn(move || {
        let h = std::thread::spawn(move || {
            let mut e = String::new();
            let _ = se.read_to_string(&mut e);
            e
        });
        let mut o = String::new();
        let _ = so.read_to_string(&mut o);
        let e = h.join().unwrap_or_default();
        let _ = tx.send((o, e));
    });
    Ok(Run { child, rx, shard, model, resume_after, started: Instant::now() })
}

/// Kind of the diagnostic and the source location it points at.
fn classify(stderr: &str) -> (String, String) {
    let mut kind = String::from("miri-error");
    let mut loc = String::new();
    let mut lines = stderr.lines();
    while let Some(l) = lines.next() {
        if let Some(rest) = l.strip_prefix("error: ") {
            if rest.starts_with("aborting") {
                continue;
            }
            // drop pointer tags / allocation ids so that one defect is one class
            let mut k = String::new();
            let mut skip = false;
            for ch in rest.split(':').take(2).collect::<Vec<_>>().join(":").chars() {
                match ch {
                    '<' => {
                        skip = true;
                        k.push_str("<tag>");
                    }
                    '>' if skip => skip = false,
                    _ if skip => {}
                    c if c.is_ascii_digit() => {}
                    c => k.push(c),
                }
            }
            kind = k.chars().take(90).collect();
            for l2 in lines.by_ref() {
                if let Some(p) = l2.trim_start().strip_prefix("--> ") {
                    // file:line (without the column)
                    let mut parts = p.rsplitn(2, ':');
                    let _col = parts.next();
                    loc = parts.next().unwrap_or(p).to_string();
                    break;
                }
            }
            break;
        }
    }
    (kind, loc)
}

pub fn run(tier: &str, jobs: usize, wall_cap: Duration) -> (Outcome, Corpus) {
    let start = Instant::now();
    let mut out = Outcome { records: vec![], stats: BTreeMap::new(), crashes: vec![], capped: false, wall_s: 0.0, machinery_errors: vec![], distinct: BTreeMap::new() };
    let cp = corpus(tier);
    let scratch = crate::supervise::scratch_dir();
    let file = scratch.join("corpus.tsv");
    if std::fs::write(&file, cp.lines.join("\n") + "\n").is_err() {
        out.machinery_errors.push("cannot write the corpus file".into());
        return (out, cp);
    }
    // build once (no case is selected), so that the shards do not race on the build
    let b = Command::new("cargo")
        .current_dir(miri_dir())
        .args(["+nightly", "miri", "run", "--offline", "--quiet", "--"])
        .arg(&file)
        .args(["0", "1", "999999999"])
        .env("MIRIFLAGS", "-Zmiri-disable-isolation -Zmiri-ignore-leaks")
        .env("CARGO_NET_OFFLINE", "true")
        .env_remove("RUSTFLAGS")
        .output();
    match b {
        Ok(o) if o.status.success() && String::from_utf8_lossy(&o.stdout).contains("DONE 0") => {}
        Ok(o) => {
            out.machinery_errors.push(format!("building the Miri harness failed: {}", String::from_utf8_lossy(&o.stderr).lines().rev().take(12).collect::<Vec<_>>().join(" | ")));
            return (out, cp);
        }
        Err(e) => {
            out.machinery_errors.push(format!("cannot run cargo miri: {}", e));
            return (out, cp);
        }
    }
    let per_model = (jobs / 2).max(1);
    let mut queue: Vec<(usize, &'static str, i64)> = vec![];
    for model in ["stacked", "tree"] {
        for s in 0..per_model {
            queue.push((s, model, -1));
        }
    }
    queue.reverse();
    let mut running: Vec<Run> = vec![];
    let mut diagnostics = 0usize;
    loop {
        while running.len() < jobs {
            match queue.pop() {
                Some((s, m, r)) => match spawn(&file, s, per_model, r, m) {
                    Ok(run) => running.push(run),
                    Err(e) => out.machinery_errors.push(format!("cannot spawn cargo miri: {}", e)),
                },
                None => break,
            }
        }
        if running.is_empty() {
            break;
        }
        let mut i = 0;
        while i < running.len() {
            match running[i].child.try_wait() {
                Ok(Some(status)) => {
                    let r = running.remove(i);
                    let (so, se) = r.rx.recv_timeout(Duration::from_secs(20)).unwrap_or_default();
                    let cases: Vec<i64> = so.lines().filter_map(|l| l.strip_prefix("CASE ").and_then(|x| x.trim().parse().ok())).collect();
                    let finished = so.lines().any(|l| l.starts_with("DONE "));
                    let n_ok = if finished { cases.len() } else { cases.len().saturating_sub(1) };
                    *out.stats.entry(format!("miri.{}.cases_clean", r.model)).or_insert(0) += n_ok as u64;
                    *out.stats.entry("miri.executions".into()).or_insert(0) += cases.len() as u64;
                    *out.stats.entry("miri.rejected_by_parser".into()).or_insert(0) += so.lines().filter(|l| l.starts_with("  rejected")).count() as u64;
                    *out.stats.entry("miri.timer_fired_mid_search".into()).or_insert(0) += so.lines().filter(|l| l.contains("slow solve_all") && l.contains("timed out")).count() as u64;
                    if status.success() && finished {
                        continue;
                    }
                    // a diagnostic (or a crash) in the last case that was started
                    let Some(&last) = cases.last() else {
                        out.machinery_errors.push(format!("miri shard {} ({}) failed before any case: {}", r.shard, r.model, se.lines().rev().take(8).collect::<Vec<_>>().join(" | ")));
                        continue;
                    };
                    let (kind, loc) = classify(&se);
                    let case_line = cp.lines.get(last as usize).cloned().unwrap_or_default();
                    let is_ub = se.contains("Undefined Behavior") || se.contains("Data race") || se.contains("data race");
                    let excerpt: String = se.lines().filter(|l| !l.starts_with("WARNING")).take(14).collect::<Vec<_>>().join("\n");
                    out.crashes.push(Crash {
                        shard: r.shard,
                        case: last as u64,
                        kind: if is_ub { "ub".into() } else { "miri-abort".into() },
                        detail: format!("[{} borrows] {} at {} — case: {}\n{}", r.model, kind, loc, case_line.replace('\t', " | "), excerpt),
                        description: json!({"class": format!("{}@{}", kind, loc), "witness": {"engine":"miri","model":r.model,"case":case_line}}),
                    });
                    diagnostics += 1;
                    if diagnostics < 40 {
                        queue.push((r.shard, r.model, last));
                    } else {
                        out.machinery_errors.push("more than 40 Miri diagnostics; not restarting further shards".into());
                    }
                    let _ = r.resume_after;
                }
                Ok(None) => {
                    if running[i].started.elapsed() > wall_cap {
                        let _ = running[i].child.kill();
                        let _ = running[i].child.wait();
                        out.capped = true;
                        running.remove(i);
                    } else {
                        i += 1;
                    }
                }
                Err(e) => {
                    out.machinery_errors.push(format!("wait: {}", e));
                    running.remove(i);
                }
            }
        }
        if start.elapsed() > wall_cap {
            out.capped = true;
            for r in running.iter_mut() {
                let _ = r.child.kill();
                let _ = r.child.wait();
            }
            break;
        }
        std::thread::sleep(Duration::from_millis(50));
    }
    let _ = std::fs::remove_dir_all(&scratch);
    out.wall_s = start.elapsed().as_secs_f64();
    (out, cp)
}

pub fn replay(wit: &serde_json::Value) -> bool {
    let case = wit["case"].as_str().unwrap_or("");
    let model = wit["model"].as_str().unwrap_or("stacked");
    println!("case: {}", case.replace('\t', " | "));
    let dir = crate::supervise::scratch_dir();
    let file = dir.join("one.tsv");
    let _ = std::fs::write(&file, format!("{}\n", case));
    let mut clean = true;
    for round in 0..2 {
        let flags = format!("-Zmiri-disable-isolation -Zmiri-ignore-leaks{}", if model == "tree" { " -Zmiri-tree-borrows" } else { "" });
        let o = Command::new("cargo").current_dir(miri_dir()).args(["+nightly", "miri", "run", "--offline", "--quiet", "--"]).arg(&file).args(["0", "1", "-1"]).env("MIRIFLAGS", flags).env_remove("RUSTFLAGS").output();
        match o {
            Ok(o) => {
                let ok = o.status.success();
                eprintln!("run {} ({} borrows): {}", round, model, if ok { "clean".to_string() } else { String::from_utf8_lossy(&o.stderr).lines().filter(|l| !l.starts_with("WARNING")).take(12).collect::<Vec<_>>().join("\n") });
                clean &= ok;
            }
            Err(e) => eprintln!("cannot run cargo miri: {}", e),
        }
    }
    let _ = std::fs::remove_dir_all(&dir);
    if clean {
        eprintln!("VERDICT: no Miri diagnostic on this case");
    }
    clean
}
