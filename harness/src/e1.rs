//! E1 — unify-space.  Explicit-state search over *real* substitution sets:
//! states are the substitution sets reachable from the empty one by ≤ d
//! successful `unify` calls over a small universe; from every such state every
//! ordered pair of the full universe is unified by the real code and judged,
//! in lock-step, against the reference unifier.  Serves C06 C07 C08 C09 C13.

use crate::refunify::{self, Sub, UErr};
use crate::supervise::Worker;
use crate::term::*;
use serde_json::{json, Value};
use std::collections::{HashMap, HashSet};
use std::panic::{catch_unwind, AssertUnwindSafe};
use std::rc::Rc;
use suiron::{SubstitutionSet, Unifiable, VarMap};

#[derive(Clone)]
pub struct Entry {
    pub t: T,
    pub u: Unifiable,
    pub kind: &'static str,
}

fn x() -> T {
    var(1, "$X")
}
fn y() -> T {
    var(2, "$Y")
}
fn z() -> T {
    var(3, "$Z")
}

/// A renaming map in which $X, $Y, $Z already stand for the ids 1, 2, 3.  It is filled by the
/// engine's own renaming of a dummy term (not through the map's insert method, so that the harness
/// does not depend on the concrete type behind `VarMap`).
fn seeded_map() -> VarMap {
    let mut m = VarMap::new();
    let saved = suiron::get_var_id();
    suiron::set_var_id(0);
    let dummy = Unifiable::SComplex(vec![
        Unifiable::Atom("seed".into()),
        Unifiable::LogicVar { id: 0, name: "$X".into() },
        Unifiable::LogicVar { id: 0, name: "$Y".into() },
        Unifiable::LogicVar { id: 0, name: "$Z".into() },
    ]);
    let _ = dummy.recreate_variables(&mut m);
    suiron::set_var_id(saved);
    m
}

/// The encodings of one written term that reach `unify` in practice: the
/// canonical one, the one the parser builds, and each of those after the
/// renaming applied to rules and queries (`recreate_variables`).
fn encodings(t: &T, with_parsed: bool) -> Vec<Entry> {
    let mut out: Vec<Entry> = vec![];
    let mut push = |u: Unifiable, kind: &'static str, out: &mut Vec<Entry>| {
        if !out.iter().any(|e| e.u == u) {
            out.push(Entry { t: t.clone(), u, kind });
        }
    };
    let canon = to_suiron(t);
    push(canon.clone(), "canon", &mut out);
    if let Ok(r) = catch_unwind(AssertUnwindSafe(|| canon.clone().recreate_variables(&mut seeded_map()))) {
        push(r, "renamed", &mut out);
    }
    if with_parsed && !t.has_func() {
        if let Ok(Ok(p)) = catch_unwind(AssertUnwindSafe(|| suiron::parse_term(&t.text()))) {
            if let Ok(r) = catch_unwind(AssertUnwindSafe(|| p.recreate_variables(&mut seeded_map()))) {
                push(r, "parsed+renamed", &mut out);
            }
        }
    }
    out
}

pub struct Config {
    pub prior_universe: Vec<T>,
    pub depth: usize,
    pub pair_universe: Vec<T>,
    pub name: &'static str,
}

fn u_small() -> Vec<T> {
    vec![
        x(),
        y(),
        z(),
        T::Anon,
        atom("a"),
        atom("b"),
        T::Int(1),
        cplx("f", vec![x()]),
        cplx("f", vec![atom("a")]),
        cplx("f", vec![T::Anon]),
        cplx("g", vec![x(), y()]),
        list(vec![]),
        list(vec![atom("a")]),
        list(vec![x()]),
        list_t(vec![x()], z()),
        list_t(vec![atom("a")], y()),
        list(vec![atom("a"), atom("b")]),
    ]
}

fn u_vars() -> Vec<T> {
    vec![x(), y(), z(), T::Anon, atom("a"), cplx("f", vec![y()]), list_t(vec![atom("a")], z())]
}

fn u_full(big: bool) -> Vec<T> {
    let mut u = vec![x(), y(), z(), T::Anon, atom("a"), atom("b"), T::Int(1), T::Float(1.5), T::Float(1.0)];
    for t in [x(), y(), atom("a"), atom("b"), T::Anon, T::Int(1)] {
        u.push(cplx("f", vec![t]));
    }
    let gs = [x(), y(), atom("a"), T::Anon];
    for t in &gs {
        for v in &gs {
            u.push(cplx("g", vec![t.clone(), v.clone()]));
        }
    }
    u.push(cplx("f", vec![cplx("f", vec![x()])]));
    u.push(cplx("f", vec![cplx("f", vec![atom("a")])]));
    u.push(cplx("h", vec![]));
    let mut lists = vec![list(vec![])];
    let es = [x(), atom("a"), T::Anon];
    let tails = [z(), T::Anon];
    for t in &es {
        lists.push(list(vec![t.clone()]));
        for tl in &tails {
            lists.push(list_t(vec![t.clone()], tl.clone()));
        }
        for v in &es {
            lists.push(list(vec![t.clone(), v.clone()]));
            for tl in &tails {
                lists.push(list_t(vec![t.clone(), v.clone()], tl.clone()));
            }
        }
    }
    lists.push(list(vec![atom("b")]));
    lists.push(list(vec![atom("a"), atom("b")]));
    lists.push(list(vec![list(vec![])]));
    lists.push(list(vec![list(vec![atom("a")])]));
    lists.push(list(vec![x(), x()]));
    lists.push(list(vec![atom("a"), list(vec![])]));
    lists.push(list(vec![atom("a"), atom("b"), atom("a")]));
    if big {
        lists.push(list_t(vec![x(), y()], y()));
        lists.push(list(vec![y(), x()]));
        lists.push(list_t(vec![y()], x()));
        lists.push(list(vec![cplx("f", vec![x()])]));
        lists.push(list(vec![T::Int(1), T::Float(1.0)]));
    }
    for l in &lists {
        u.push(l.clone());
    }
    for l in &lists {
        u.push(cplx("f", vec![l.clone()]));
    }
    u
}

/// Function terms and their partners for C13.
fn u_func() -> (Vec<T>, Vec<T>) {
    let fs = vec![
        func("add", vec![T::Int(1), T::Int(2)]),
        func("add", vec![x(), T::Int(2)]),
        func("subtract", vec![T::Int(5), T::Int(2)]),
        func("multiply", vec![T::Float(1.5), T::Int(2)]),
        func("divide", vec![T::Int(7), T::Int(2)]),
        func("divide", vec![T::Float(3.0), T::Int(2)]),
        func("add", vec![T::Int(3)]),
        func("join", vec![atom("a"), atom("b")]),
        func("join", vec![atom("a"), atom(",")]),
        func("join", vec![y()]),
    ];
    let mut os = vec![
        x(),
        y(),
        z(),
        T::Anon,
        T::Int(3),
        T::Int(4),
        T::Float(3.0),
        T::Float(1.5),
        T::Float(3.5),
        atom("a b"),
        atom("a,"),
        atom("a"),
        atom("3"),
        cplx("f", vec![T::Int(3)]),
        list(vec![T::Int(3)]),
        list(vec![]),
    ];
    for f in &fs {
        os.push(f.clone());
        os.push(cplx("f", vec![f.clone()]));
        os.push(list(vec![f.clone()]));
    }
    (fs, os)
}

fn func_priors() -> Vec<T> {
    vec![x(), y(), z(), T::Int(1), T::Int(3), T::Float(1.5), atom("a"), atom("a b")]
}

fn ss_fingerprint(ss: &SubstitutionSet) -> String {
    let mut s = String::new();
    for (i, e) in ss.iter().enumerate() {
        if let Some(t) = e {
            s.push_str(&format!("{}={};", i, shape(t)));
        }
    }
    s
}

pub fn decode_ss(ss: &SubstitutionSet) -> Sub {
    let mut m = Sub::new();
    for (i, e) in ss.iter().enumerate() {
        if let Some(t) = e {
            m.insert(i, decode(t));
        }
    }
    m
}

/// Variable-to-variable reachability: does following bindings from any
/// variable come back to it?
pub fn find_cycle(sub: &Sub) -> Option<usize> {
    fn visit(v: usize, sub: &Sub, on_path: &mut HashSet<usize>, done: &mut HashSet<usize>) -> bool {
        if done.contains(&v) {
            return false;
        }
        if !on_path.insert(v) {
            return true;
        }
        if let Some(t) = sub.get(&v) {
            let mut vs = vec![];
            t.vars(&mut vs);
            for w in vs {
                if visit(w, sub, on_path, done) {
                    return true;
                }
            }
        }
        on_path.remove(&v);
        done.insert(v);
        false
    }
    let mut done = HashSet::new();
    let mut keys: Vec<usize> = sub.keys().copied().collect();
    keys.sort();
    for k in keys {
        let mut path = HashSet::new();
        if visit(k, sub, &mut path, &mut done) {
            return Some(k);
        }
    }
    None
}

fn sig(t: &T, s: &Sub) -> String {
    match t {
        T::Var(i, _) => {
            if s.contains_key(i) {
                "var(bound)".into()
            } else {
                "var".into()
            }
        }
        T::Anon => "anon".into(),
        T::Atom(_) => "atom".into(),
        T::Int(_) => "int".into(),
        T::Float(_) => "float".into(),
        T::Cplx(_, a) => {
            if a.iter().any(|x| matches!(x, T::List(..))) {
                "cplx(list)".into()
            } else if a.iter().any(|x| matches!(x, T::Func(..))) {
                "cplx(func)".into()
            } else {
                "cplx".into()
            }
        }
        T::List(es, tl) => {
            let inner = if es.iter().any(|x| matches!(x, T::Func(..))) { "func" } else { "" };
            match (es.is_empty(), tl) {
                (true, None) => "list[]".into(),
                (_, None) => format!("list{}", inner),
                (_, Some(t)) => match **t {
                    T::Anon => "list|anon".into(),
                    _ => "list|tail".into(),
                },
            }
        }
        T::Func(n, _) => {
            if n == "join" {
                "func(join)".into()
            } else {
                "func(arith)".into()
            }
        }
    }
}

pub struct Transition<'a> {
    pub prior_ops: &'a [(usize, usize)],
    pub prior: &'a Rc<SubstitutionSet<'static>>,
    pub prior_sub: &'a Sub,
    pub a: &'a Entry,
    pub b: &'a Entry,
}

pub struct Judged {
    pub viols: Vec<(String, String, String)>, // (property, class, message)
    pub outcome: &'static str,
    pub succ: Option<Rc<SubstitutionSet<'static>>>,
}

fn resolve_vec(ids: &[usize], sub: &Sub) -> Vec<T> {
    ids.iter().map(|i| refunify::resolve(&T::Var(*i, format!("$V{}", i)), sub)).collect()
}

fn real_unify(a: &Unifiable, b: &Unifiable, ss: &Rc<SubstitutionSet<'static>>) -> Result<Option<Rc<SubstitutionSet<'static>>>, String> {
    // The lifetimes in `unify`'s signature tie the result to the borrows of
    // the operands, but `SubstitutionSet<'a>` is an alias that does not use
    // `'a`, so the result owns everything it holds.
    let r = catch_unwind(AssertUnwindSafe(|| a.unify(b, ss).map(|r| Rc::new((*r).clone()))));
    match r {
        Ok(v) => Ok(v),
        Err(p) => Err(panic_text(p)),
    }
}

pub fn panic_text(p: Box<dyn std::any::Any + Send>) -> String {
    if let Some(s) = p.downcast_ref::<String>() {
        s.clone()
    } else if let Some(s) = p.downcast_ref::<&str>() {
        s.to_string()
    } else {
        "panic".into()
    }
}

pub fn judge(tr: &Transition) -> Judged {
    let (a, b) = (tr.a, tr.b);
    let mut viols: Vec<(String, String, String)> = vec![];
    let has_func = a.t.has_func() || b.t.has_func();
    let has_anon = a.t.has_anon() || b.t.has_anon() || tr.prior_sub.values().any(|t| t.has_anon());
    let main_prop = if has_func { "C13" } else { "C06" };
    let enc = if a.kind == "canon" && b.kind == "canon" { String::new() } else { format!("[{}~{}]", a.kind, b.kind) };
    let cls = |kind: &str| format!("{}:{}~{}{}", kind, sig(&a.t, tr.prior_sub), sig(&b.t, tr.prior_sub), enc);
    let desc = || format!("prior {{{}}}  {}  =  {}", sub_text(tr.prior_sub), a.t.text_ids(), b.t.text_ids());

    // A function term that cannot be evaluated under the prior bindings
    // (unbound or non-numeric argument: documented panic; overflow) puts the
    // whole pair outside C13, wherever in the pair it occurs.
    if has_func {
        fn all_evaluable(t: &T, s: &Sub) -> bool {
            match t {
                T::Func(n, a) => crate::refbuiltins::eval_func(n, a, s).is_ok(),
                T::Cplx(_, a) => a.iter().all(|x| all_evaluable(x, s)),
                T::List(a, tl) => a.iter().all(|x| all_evaluable(x, s)) && tl.as_ref().map_or(true, |t| all_evaluable(t, s)),
                _ => true,
            }
        }
        if !all_evaluable(&a.t, tr.prior_sub) || !all_evaluable(&b.t, tr.prior_sub) {
            return Judged { viols, outcome: "outside-claim", succ: None };
        }
    }

    // ---- reference, both readings of `$_`
    let mut wild = tr.prior_sub.clone();
    let r_wild = refunify::unify(&a.t, &b.t, &mut wild);
    let mut next = 1000usize;
    let mut strict: Sub = tr.prior_sub.iter().map(|(k, v)| (*k, refunify::freshen_anons(v, &mut next))).collect();
    let sa = refunify::freshen_anons(&a.t, &mut next);
    let sb = refunify::freshen_anons(&b.t, &mut next);
    let r_strict = refunify::unify(&sa, &sb, &mut strict);

    if matches!(r_wild, Err(UErr::Occurs)) || matches!(r_strict, Err(UErr::Occurs)) {
        return Judged { viols, outcome: "occurs-excluded", succ: None };
    }
    if let Err(UErr::Outside(_)) = r_wild {
        return Judged { viols, outcome: "outside-claim", succ: None };
    }
    if let Err(UErr::Outside(_)) = r_strict {
        return Judged { viols, outcome: "outside-claim", succ: None };
    }
    let grey = r_wild.is_ok() != r_strict.is_ok();

    // ---- implementation, both orders
    let i_ab = real_unify(&a.u, &b.u, tr.prior);
    let i_ba = real_unify(&b.u, &a.u, tr.prior);
    let i_ab = match i_ab {
        Ok(v) => v,
        Err(p) => {
            viols.push((main_prop.into(), cls("panic"), format!("unify panicked: {} — {}", p, desc())));
            return Judged { viols, outcome: "panic", succ: None };
        }
    };

    let mut outcome = if i_ab.is_some() { "success" } else { "failure" };
    if grey {
        outcome = "grey-zone";
    } else if i_ab.is_some() != r_wild.is_ok() {
        let m = format!("implementation {} but a unifier {} — {}", if i_ab.is_some() { "succeeds" } else { "fails" }, if r_wild.is_ok() { "exists" } else { "does not exist" }, desc());
        viols.push((main_prop.into(), cls(if i_ab.is_some() { "spurious-success" } else { "spurious-failure" }), m.clone()));
        if has_anon && !has_func {
            viols.push(("C09".into(), cls(if i_ab.is_some() { "spurious-success" } else { "spurious-failure" }), m));
        }
    }

    // ids whose resolved values are compared
    let mut ids: Vec<usize> = vec![1, 2, 3];
    for k in tr.prior_sub.keys() {
        if !ids.contains(k) {
            ids.push(*k)
        }
    }
    a.t.vars(&mut ids);
    b.t.vars(&mut ids);
    ids.sort();

    let mut succ = None;
    let mut impl_vec_ab: Option<Vec<T>> = None;
    if let Some(res) = &i_ab {
        let rsub = decode_ss(res);
        // C06: earlier bindings kept verbatim
        let mut c09_blamed = false;
        for (i, e) in tr.prior.iter().enumerate() {
            if let Some(old) = e {
                let kept = res.get(i).and_then(|x| x.as_ref()).map_or(false, |n| **n == **old);
                if !kept {
                    viols.push(("C06".into(), cls("prior-binding-changed"), format!("binding of id {} changed — {}", i, desc())));
                    // C09 ("without creating or changing any binding"): blame `$_` when the same
                    // pair with every `$_` replaced by a fresh variable keeps the earlier bindings
                    if (a.t.has_anon() || b.t.has_anon()) && !has_func && !c09_blamed {
                        let (ua, ub) = (to_suiron(&sa), to_suiron(&sb));
                        if let Ok(Some(r2)) = real_unify(&ua, &ub, tr.prior) {
                            let all_kept = tr.prior.iter().enumerate().all(|(j, e)| e.as_ref().map_or(true, |old| r2.get(j).and_then(|x| x.as_ref()).map_or(false, |n| **n == **old)));
                            if all_kept {
                                c09_blamed = true;
                                viols.push(("C09".into(), cls("anon-changed-prior-binding"), format!("binding of id {} changed although the operands only differ from a binding-preserving pair by `$_` — {}", i, desc())));
                            }
                        }
                    }
                }
            }
        }
        // C09: `$_` never becomes a binding; a top-level `$_` operand changes nothing
        for (i, e) in res.iter().enumerate() {
            if let Some(t) = e {
                if **t == Unifiable::Anonymous && tr.prior.get(i).map_or(true, |p| p.is_none()) {
                    viols.push(("C09".into(), cls("anon-bound"), format!("variable id {} is bound to `$_` — {}", i, desc())));
                }
            }
        }
        if matches!(a.t, T::Anon) || matches!(b.t, T::Anon) {
            if ss_fingerprint(res) != ss_fingerprint(tr.prior) {
                viols.push(("C09".into(), cls("anon-changed-bindings"), format!("unifying with `$_` changed the bindings — {}", desc())));
            }
        }
        // C08: acyclic
        if let Some(v) = find_cycle(&rsub) {
            viols.push(("C08".into(), cls("cycle"), format!("bindings form a cycle through id {} : {{{}}} — {}", v, sub_text(&rsub), desc())));
            return Judged { viols, outcome: "cycle", succ: None };
        }
        // C08: already-aliased variables add no binding
        {
            let wa = refunify::walk(&a.t, tr.prior_sub);
            let wb = refunify::walk(&b.t, tr.prior_sub);
            if let (T::Var(i, _), T::Var(j, _)) = (wa, wb) {
                if i == j && ss_fingerprint(res) != ss_fingerprint(tr.prior) {
                    viols.push(("C08".into(), cls("aliased-rebinding"), format!("operands were already aliased but a binding was added: {{{}}} — {}", sub_text(&rsub), desc())));
                }
            }
        }
        // C06: both terms identical when resolved (modulo wildcards)
        if !has_func {
            let ra = refunify::resolve(&a.t, &rsub);
            let rb = refunify::resolve(&b.t, &rsub);
            let anon_any = ra.has_anon() || rb.has_anon();
            if !(ra == rb || (anon_any && variant_same_vars(&ra, &rb))) {
                viols.push(("C06".into(), cls("not-unified"), format!("after success the operands resolve to {} and {} — {}", ra.text_ids(), rb.text_ids(), desc())));
            }
            // engine's own resolver agrees and terminates
            match catch_unwind(AssertUnwindSafe(|| decode(&a.u.replace_variables(res)))) {
                Ok(ia) => {
                    if ia != ra {
                        viols.push(("C06".into(), cls("resolve-mismatch"), format!("replace_variables gives {} but the bindings give {} — {}", ia.text_ids(), ra.text_ids(), desc())));
                    }
                }
                Err(p) => viols.push(("C08".into(), cls("resolve-panic"), format!("replace_variables panicked: {} — {}", panic_text(p), desc()))),
            }
        }
        // C06: binds no more than an mgu (vector of resolved values is a
        // variant of the reference's)
        if r_wild.is_ok() && !grey {
            let iv = resolve_vec(&ids, &rsub);
            let rv = resolve_vec(&ids, &wild);
            let anon_any = iv.iter().any(|t| t.has_anon()) || rv.iter().any(|t| t.has_anon());
            if !variant_vec(&iv, &rv, anon_any) {
                let m = format!("resolved values {} differ from the most general unifier's {} — {}", vec_text(&ids, &iv), vec_text(&ids, &rv), desc());
                viols.push((main_prop.into(), cls("not-most-general"), m));
            }
            impl_vec_ab = Some(iv);
        }
        succ = Some(res.clone());
    }

    // ---- C07 symmetry (function terms: C13 covers both orders by judging both)
    match i_ba {
        Err(p) => viols.push((if has_func { "C13" } else { "C07" }.into(), cls("panic-reversed"), format!("reversed unify panicked: {} — {}", p, desc()))),
        Ok(i_ba) => {
            if !grey && i_ba.is_some() != i_ab.is_some() {
                let m = format!("A=B {} but B=A {} — {}", if i_ab.is_some() { "succeeds" } else { "fails" }, if i_ba.is_some() { "succeeds" } else { "fails" }, desc());
                viols.push((if has_func { "C13" } else { "C07" }.into(), cls("success-asymmetric"), m));
            } else if let (Some(iv), Some(rb)) = (&impl_vec_ab, &i_ba) {
                let bsub = decode_ss(rb);
                if find_cycle(&bsub).is_none() {
                    let bv = resolve_vec(&ids, &bsub);
                    let anon_any = iv.iter().any(|t| t.has_anon()) || bv.iter().any(|t| t.has_anon());
                    if !variant_vec(iv, &bv, anon_any) {
                        let m = format!("A=B gives {} but B=A gives {} — {}", vec_text(&ids, iv), vec_text(&ids, &bv), desc());
                        viols.push((if has_func { "C13" } else { "C07" }.into(), cls("values-asymmetric"), m));
                    }
                }
            }
        }
    }
    Judged { viols, outcome, succ }
}

/// Equal except that a `$_` on either side matches anything (variables must
/// be the *same* variables: both sides are resolved under one substitution).
fn variant_same_vars(a: &T, b: &T) -> bool {
    use T::*;
    if matches!(a, Anon) || matches!(b, Anon) {
        return true;
    }
    match (a, b) {
        (Cplx(f, x), Cplx(g, y)) => f == g && x.len() == y.len() && x.iter().zip(y).all(|(p, q)| variant_same_vars(p, q)),
        (List(x, t), List(y, u)) => {
            let n = x.len().min(y.len());
            if !x[..n].iter().zip(&y[..n]).all(|(p, q)| variant_same_vars(p, q)) {
                return false;
            }
            let rx = if x.len() == n { t.as_ref().map(|t| (**t).clone()).unwrap_or(List(vec![], None)) } else { List(x[n..].to_vec(), t.clone()) };
            let ry = if y.len() == n { u.as_ref().map(|t| (**t).clone()).unwrap_or(List(vec![], None)) } else { List(y[n..].to_vec(), u.clone()) };
            if matches!(rx, Anon) || matches!(ry, Anon) {
                return true;
            }
            match (&rx, &ry) {
                (List(p, None), List(q, None)) if p.is_empty() && q.is_empty() => true,
                // both remainders still have elements: compare them the same way (progress is guaranteed)
                (List(p, _), List(q, _)) => !p.is_empty() && !q.is_empty() && variant_same_vars(&rx, &ry),
                // a tail bound to a non-list term (e.g. `[a | f($_)]` against `[a | f(a)]`)
                (List(..), _) | (_, List(..)) => false,
                _ => variant_same_vars(&rx, &ry),
            }
        }
        _ => a == b,
    }
}

pub fn sub_text(s: &Sub) -> String {
    let mut ks: Vec<_> = s.keys().copied().collect();
    ks.sort();
    ks.iter().map(|k| format!("#{}↦{}", k, s[k].text_ids())).collect::<Vec<_>>().join(", ")
}
fn vec_text(ids: &[usize], v: &[T]) -> String {
    ids.iter().zip(v).map(|(i, t)| format!("#{}={}", i, t.text_ids())).collect::<Vec<_>>().join(" ")
}

pub struct Space {
    pub entries: Vec<Entry>,
    pub prior_entries: Vec<Entry>,
    /// each prior: the sequence of (a, b) indices into prior_entries that built it
    pub priors: Vec<(Vec<(usize, usize)>, Rc<SubstitutionSet<'static>>)>,
    /// the cap on the number of prior states was reached: the depth is then not covered completely
    pub cap_hit: bool,
    pub name: String,
}

fn build_space(name: &str, prior_u: &[T], depth: usize, pair_u: &[T], with_parsed: bool, max_priors: usize) -> Space {
    let prior_entries: Vec<Entry> = prior_u.iter().map(|t| Entry { t: t.clone(), u: to_suiron(t), kind: "canon" }).collect();
    let mut entries = vec![];
    // (the scale spaces use variables that the renaming map of `encodings` does not know: as built only)
    let canon_only = name == "ids" || name == "deep";
    for t in pair_u {
        if canon_only {
            entries.push(entry(t.clone()));
        } else {
            entries.extend(encodings(t, with_parsed));
        }
    }
    let empty: Rc<SubstitutionSet<'static>> = Rc::new(SubstitutionSet::new());
    let mut priors = vec![(vec![], empty.clone())];
    let mut seen: HashSet<String> = HashSet::new();
    seen.insert(ss_fingerprint(&empty));
    let mut frontier = vec![0usize];
    for _ in 0..depth {
        let mut next = vec![];
        for pi in frontier {
            let (ops, ss) = priors[pi].clone();
            let psub = decode_ss(&ss);
            for (ai, a) in prior_entries.iter().enumerate() {
                for (bi, b) in prior_entries.iter().enumerate() {
                    // do not build priors through pairs that need an occurs check
                    let mut w = psub.clone();
                    if matches!(refunify::unify(&a.t, &b.t, &mut w), Err(UErr::Occurs)) {
                        continue;
                    }
                    if let Ok(Some(r)) = real_unify(&a.u, &b.u, &ss) {
                        let rsub = decode_ss(&r);
                        if find_cycle(&rsub).is_some() {
                            continue; // judged (and reported) as a transition; never expanded
                        }
                        if seen.insert(ss_fingerprint(&r)) && priors.len() < max_priors {
                            let mut o = ops.clone();
                            o.push((ai, bi));
                            priors.push((o, r));
                            next.push(priors.len() - 1);
                        }
                    }
                }
            }
        }
        frontier = next;
    }
    let cap_hit = priors.len() >= max_priors;
    Space { entries, prior_entries, priors, name: name.to_string(), cap_hit }
}

/// Sizes at which a width, a capacity or a counter typically overflows.
fn boundary_sizes(thorough: bool) -> Vec<usize> {
    if thorough {
        let mut v: Vec<usize> = (4..=40).collect();
        v.extend([63, 64, 65, 127, 128, 129, 254, 255, 256, 257, 300, 511, 512, 513]);
        v
    } else {
        vec![4, 5, 8, 9, 16, 17, 32, 33, 64, 65, 128, 129, 255, 256, 257, 300]
    }
}

fn entry(t: T) -> Entry {
    let u = to_suiron(&t);
    Entry { t, u, kind: "canon" }
}

/// A space whose prior states are built by fixed scripts of unifications (not by search).
fn scripted_space(name: &str, prior_terms: Vec<T>, scripts: Vec<Vec<(usize, usize)>>, pair_terms: Vec<T>) -> Space {
    let prior_entries: Vec<Entry> = prior_terms.into_iter().map(entry).collect();
    let empty: Rc<SubstitutionSet<'static>> = Rc::new(SubstitutionSet::new());
    let mut priors = vec![];
    for sc in scripts {
        let mut ss = empty.clone();
        let mut ok = true;
        for (ai, bi) in &sc {
            match real_unify(&prior_entries[*ai].u, &prior_entries[*bi].u, &ss) {
                Ok(Some(r)) => ss = r,
                _ => {
                    ok = false;
                    break;
                }
            }
        }
        // a script that does not go through (or ends in a cycle) is judged where it is a transition, not here
        if ok && find_cycle(&decode_ss(&ss)).is_none() {
            priors.push((sc, ss));
        }
    }
    Space { entries: pair_terms.into_iter().map(entry).collect(), prior_entries, priors, name: name.to_string(), cap_hit: false }
}

/// Scale spaces: long variable chains, large variable ids, deep terms, long lists - one size parameter at a
/// time, at every boundary size.
fn scale_spaces(thorough: bool) -> Vec<Space> {
    let mut v = vec![];
    let var_n = |i: usize| var(i, &format!("$V{}", i));
    for &k in &boundary_sizes(thorough) {
        // v1 .. vk chained forwards / backwards / forwards and grounded at the far end
        let mut pt: Vec<T> = (1..=k).map(var_n).collect();
        pt.push(atom("a"));
        let fwd: Vec<(usize, usize)> = (0..k - 1).map(|i| (i, i + 1)).collect();
        let bwd: Vec<(usize, usize)> = (0..k - 1).map(|i| (i + 1, i)).collect();
        let mixed: Vec<(usize, usize)> = (0..k - 1).map(|i| if i % 2 == 0 { (i, i + 1) } else { (i + 1, i) }).collect();
        let mut grounded = fwd.clone();
        grounded.push((k - 1, k));
        let (v1, vk, vm) = (var_n(1), var_n(k), var_n(k / 2 + 1));
        let pairs = vec![
            v1.clone(),
            vk.clone(),
            vm.clone(),
            atom("a"),
            atom("b"),
            cplx("f", vec![v1.clone()]),
            cplx("f", vec![vk.clone()]),
            cplx("g", vec![v1.clone(), vk.clone()]),
            cplx("g", vec![vk.clone(), v1.clone()]),
            cplx("g", vec![atom("a"), vm.clone()]),
            list_t(vec![v1.clone()], vk.clone()),
            var_n(k + 1),
        ];
        v.push(scripted_space(&format!("chain-{}", k), pt, vec![fwd, bwd, mixed, grounded], pairs));
    }
    // large variable ids next to small ones, every state reachable in two unifications
    let ids: Vec<usize> = if thorough { vec![1, 2, 3, 31, 32, 33, 63, 64, 65, 127, 128, 129, 255, 256, 257] } else { vec![1, 2, 63, 64, 65, 128, 129, 256, 257] };
    let mut iu: Vec<T> = ids.iter().map(|i| var_n(*i)).collect();
    iu.push(atom("a"));
    let mut ipairs = iu.clone();
    for i in [1usize, 64, 65, 129, 257] {
        ipairs.push(cplx("f", vec![var_n(i)]));
    }
    ipairs.push(cplx("g", vec![var_n(65), var_n(1)]));
    ipairs.push(list_t(vec![var_n(64)], var_n(128)));
    v.push(build_space("ids", &iu, 2, &ipairs, false, if thorough { 20_000 } else { 1_500 }));
    // deep terms and long lists
    let mut deep: Vec<T> = vec![x(), z(), atom("a")];
    for &n in &boundary_sizes(thorough) {
        let nest = |leaf: T| (0..n).fold(leaf, |t, _| cplx("f", vec![t]));
        deep.push(nest(x()));
        deep.push(nest(atom("a")));
        deep.push(nest(atom("b")));
        let els: Vec<T> = (1..=n as i64).map(T::Int).collect();
        deep.push(list(els.clone()));
        deep.push(list_t(els[..n - 1].to_vec(), z()));
        deep.push(list_t(els.clone(), z()));
        let mut e2 = els.clone();
        e2[n - 1] = x();
        deep.push(list(e2));
        let mut e3 = els.clone();
        e3[n - 1] = T::Int(-1);
        deep.push(list(e3));
        let mut e4 = els.clone();
        e4[n / 2] = T::Anon;
        deep.push(list(e4));
        deep.push(cplx("k", els.clone()));
        // `$_` in every position / as the tail of a long list; a function term with n arguments
        deep.push(cplx("k", (0..n).map(|_| T::Anon).collect()));
        deep.push(list_t(els[..n - 1].to_vec(), T::Anon));
        let mut e6 = els.clone();
        e6[0] = T::Anon;
        e6[n - 1] = T::Anon;
        deep.push(cplx("k", e6));
        // join(...) of n words against the atom it denotes (text of 2n-1 and more characters)
        if n <= 129 {
            let words: Vec<T> = (0..n).map(|i| atom(if i % 2 == 0 { "ab" } else { "c" })).collect();
            let text: String = (0..n).map(|i| if i % 2 == 0 { "ab" } else { "c" }).collect::<Vec<_>>().join(" ");
            deep.push(func("join", words));
            deep.push(atom(&text));
        }
        if n <= 40 {
            deep.push(func("add", els.clone()));
            deep.push(T::Int((1..=n as i64).sum()));
        }
        // n distinct fresh variables (ids above everything else in these spaces) facing n constants
        deep.push(cplx("k", (0..n).map(|i| var(600 + i, &format!("$W{}", i))).collect()));
        let mut e5 = els.clone();
        e5[n - 1] = x();
        deep.push(cplx("k", e5));
    }
    v.push(build_space("deep", &[x(), z(), atom("a"), list(vec![T::Int(7)])], 1, &deep, false, 50));
    v
}

pub fn spaces(tier: &str) -> Vec<Space> {
    let thorough = tier == "thorough";
    let mut v = vec![];
    // main: every ordered pair of the full universe from every state at depth <= 1
    v.push(build_space("full", &u_small(), 1, &u_full(thorough), true, 100_000));
    // alias space: short universe, deep histories (C08)
    v.push(build_space("alias", &u_vars(), if thorough { 4 } else { 3 }, &u_vars(), false, if thorough { 60_000 } else { 6_000 }));
    // tails space: lists that end in each of the variables, after histories that alias the variables
    // or bind them through other tails (an alias meeting a list tail: C06, C08, C07)
    let u_tails: Vec<T> = vec![
        x(),
        y(),
        z(),
        list(vec![]),
        list(vec![atom("b")]),
        list(vec![atom("a"), atom("b")]),
        list_t(vec![atom("a")], x()),
        list_t(vec![atom("a")], y()),
        list_t(vec![atom("a")], z()),
        list_t(vec![atom("a"), atom("b")], x()),
        list_t(vec![x()], y()),
        list_t(vec![atom("a")], T::Anon),
        cplx("g", vec![list_t(vec![atom("a")], x()), y()]),
        cplx("g", vec![list(vec![atom("a"), atom("b")]), atom("c")]),
    ];
    v.push(build_space("tails", &u_tails, 2, &u_tails, false, if thorough { 60_000 } else { 8_000 }));
    // function terms (C13): functions x partners, priors binding the variables to numbers/atoms
    let (fs, os) = u_func();
    let mut pu = fs.clone();
    pu.extend(os);
    v.push(build_space("func", &func_priors(), 1, &pu, false, 100_000));
    v.extend(scale_spaces(thorough));
    if thorough {
        v.push(build_space("small-depth2", &u_small(), 2, &u_small(), false, 200_000));
        v.push(build_space("full-depth2", &u_small(), 2, &u_full(false), false, 4_000));
        v.push(build_space("small-depth3", &u_small(), 3, &u_small(), false, 60_000));
        v.push(build_space("full-depth3", &u_small(), 3, &u_full(false), false, 60_000));
        v.push(build_space("small-depth4", &u_small(), 4, &u_small(), false, 60_000));
    }
    v
}

fn witness(sp: &Space, pi: usize, a: &Entry, b: &Entry) -> Value {
    let ops: Vec<Value> = sp.priors[pi].0.iter().map(|(ai, bi)| json!([sp.prior_entries[*ai].t.to_json(), sp.prior_entries[*bi].t.to_json()])).collect();
    json!({"engine":"e1","space": sp.name, "prior_ops": ops, "a": a.t.to_json(), "a_kind": a.kind, "b": b.t.to_json(), "b_kind": b.kind,
           "text": format!("after [{}]:  {} = {}", sp.priors[pi].0.iter().map(|(ai,bi)| format!("{} = {}", sp.prior_entries[*ai].t.text_ids(), sp.prior_entries[*bi].t.text_ids())).collect::<Vec<_>>().join("; "), a.t.text_ids(), b.t.text_ids())})
}

pub fn worker(tier: &str) {
    let mut w = Worker::from_env();
    let sps = spaces(tier);
    let mut case: u64 = 0;
    let mut row_no: u64 = 0;
    let mut emitted: HashMap<(String, String), u32> = HashMap::new();
    let mut samples = 0;
    for sp in &sps {
        if w.shard == 0 && w.describe.is_none() {
            w.count(&format!("space.{}.prior_states", sp.name), sp.priors.len() as u64);
            w.count(&format!("space.{}.pair_entries", sp.name), sp.entries.len() as u64);
            w.count(&format!("space.{}.prior_cap_hit", sp.name), sp.cap_hit as u64);
        }
        for (pi, (_ops, prior)) in sp.priors.iter().enumerate() {
            let psub = decode_ss(prior);
            w.distinct("states", &ss_fingerprint(prior));
            for a in sp.entries.iter() {
                let row = row_no;
                row_no += 1;
                let ncols = sp.entries.len() as u64;
                let base = case;
                case += ncols;
                let in_row = |d: Option<u64>| d.map_or(false, |d| d >= base && d < base + ncols);
                if w.describe.is_some() {
                    if !in_row(w.describe) {
                        continue;
                    }
                } else if w.only.is_some() {
                    if !in_row(w.only) {
                        continue;
                    }
                } else if row % w.nshards != w.shard || (base + ncols - 1) as i64 <= w.resume_after {
                    continue;
                }
                let mut col = 0u64;
                for b in sp.entries.iter() {
                    let idx = base + col;
                    col += 1;
                    // the func space judges only pairs involving a function
                    if sp.name == "func" && !(a.t.has_func() || b.t.has_func()) {
                        continue;
                    }
                    if let Some(d) = w.describe {
                        if d == idx {
                            w.emit(json!({"t":"describe","class": format!("{}~{}", sig(&a.t, &psub), sig(&b.t, &psub)), "witness": witness(sp, pi, a, b)}));
                            return;
                        }
                        continue;
                    }
                    if (idx as i64) <= w.resume_after || w.only.map_or(false, |o| o != idx) {
                        continue;
                    }
                    w.begin(idx);
                    let tr = Transition { prior_ops: &sp.priors[pi].0, prior, prior_sub: &psub, a, b };
                    let j = judge(&tr);
                    w.count("transitions", 1);
                    w.count(&format!("outcome.{}", j.outcome), 1);
                    if a.t.has_anon() || b.t.has_anon() {
                        w.count("transitions_with_anon", 1);
                    }
                    if a.kind != "canon" || b.kind != "canon" {
                        w.count("transitions_with_renamed_encoding", 1);
                    }
                    if a.t.has_func() || b.t.has_func() {
                        w.count("transitions_with_function", 1);
                    }
                    if let Some(s) = &j.succ {
                        w.distinct("states", &ss_fingerprint(s));
                        let d = decode_ss(s);
                        let chain = max_chain(&d);
                        let k = format!("max_chain.{}", chain);
                        if !w.stats.contains_key(&k) {
                            w.count(&k, 1);
                        }
                    }
                    w.distinct("outcomes", &(j.outcome, sig(&a.t, &psub), sig(&b.t, &psub)));
                    for (prop, class, msg) in j.viols {
                        w.count(&format!("viol.{}", prop), 1);
                        let n = emitted.entry((prop.clone(), class.clone())).or_insert(0);
                        *n += 1;
                        if *n <= 3 {
                            w.emit(json!({"t":"viol","prop":prop,"class":class,"kind":class.split(':').next().unwrap_or(""),"msg":msg,"witness":witness(sp, pi, a, b)}));
                        } else {
                            w.emit(json!({"t":"viol","prop":prop,"class":class,"kind":"","msg":"(further occurrence)","witness":null}));
                        }
                    }
                    if samples < 4 && w.shard == 0 && (idx % 997 == 1) {
                        samples += 1;
                        w.emit(json!({"t":"sample","v": {"transition": witness(sp, pi, a, b)["text"], "outcome": j.outcome}}));
                    }
                }
            }
        }
        w.count(&format!("priors.{}", sp.name), if w.shard == 0 { sp.priors.len() as u64 } else { 0 });
        w.count(&format!("universe.{}", sp.name), if w.shard == 0 { sp.entries.len() as u64 } else { 0 });
    }
    w.done();
}

fn max_chain(s: &Sub) -> usize {
    let mut best = 0;
    for k in s.keys() {
        let mut n = 0;
        let mut cur = *k;
        while let Some(T::Var(j, _)) = s.get(&cur) {
            n += 1;
            cur = *j;
            if n > 50 {
                break;
            }
        }
        best = best.max(n);
    }
    best
}

/// Replay one recorded transition (both sides, printed).
pub fn replay(wit: &Value) -> bool {
    let mut ss: Rc<SubstitutionSet<'static>> = Rc::new(SubstitutionSet::new());
    let mut ok = true;
    if let Some(ops) = wit["prior_ops"].as_array() {
        for op in ops {
            let a = T::from_json(&op[0]).unwrap();
            let b = T::from_json(&op[1]).unwrap();
            match real_unify(&to_suiron(&a), &to_suiron(&b), &ss) {
                Ok(Some(r)) => ss = r,
                other => {
                    println!("prior op {} = {} did not succeed: {:?}", a.text_ids(), b.text_ids(), other.map(|o| o.is_some()));
                    ok = false;
                }
            }
        }
    }
    let at = T::from_json(&wit["a"]).unwrap();
    let bt = T::from_json(&wit["b"]).unwrap();
    let pick = |t: &T, kind: &str| -> Entry {
        encodings(t, true).into_iter().find(|e| e.kind == kind).unwrap_or(Entry { t: t.clone(), u: to_suiron(t), kind: "canon" })
    };
    let a = pick(&at, wit["a_kind"].as_str().unwrap_or("canon"));
    let b = pick(&bt, wit["b_kind"].as_str().unwrap_or("canon"));
    let psub = decode_ss(&ss);
    println!("prior bindings : {{{}}}", sub_text(&psub));
    println!("A ({})   : {}   raw {}", a.kind, a.t.text_ids(), shape(&a.u));
    println!("B ({})   : {}   raw {}", b.kind, b.t.text_ids(), shape(&b.u));
    let mut wild = psub.clone();
    let r = refunify::unify(&a.t, &b.t, &mut wild);
    println!("reference      : {:?}  bindings {{{}}}", r, sub_text(&wild));
    for round in 0..2 {
        let i = real_unify(&a.u, &b.u, &ss);
        match &i {
            Ok(Some(r)) => println!("implementation A=B (run {}): success, bindings {{{}}}", round, sub_text(&decode_ss(r))),
            Ok(None) => println!("implementation A=B (run {}): failure", round),
            Err(p) => println!("implementation A=B (run {}): PANIC {}", round, p),
        }
        let i = real_unify(&b.u, &a.u, &ss);
        match &i {
            Ok(Some(r)) => println!("implementation B=A (run {}): success, bindings {{{}}}", round, sub_text(&decode_ss(r))),
            Ok(None) => println!("implementation B=A (run {}): failure", round),
            Err(p) => println!("implementation B=A (run {}): PANIC {}", round, p),
        }
    }
    let tr = Transition { prior_ops: &[], prior: &ss, prior_sub: &psub, a: &a, b: &b };
    let j = judge(&tr);
    for (p, c, m) in &j.viols {
        println!("VERDICT {} {} : {}", p, c, m);
        ok = false;
    }
    if j.viols.is_empty() {
        println!("VERDICT: no violation on this transition (outcome {})", j.outcome);
    }
    ok
}
