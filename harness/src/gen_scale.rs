//! Scale families for E2/E3: the same program shapes as gen.rs / gen3.rs, but
//! parametric in ONE size at a time (number of clauses, goals, variables, list
//! elements, nesting depth, arguments, retries), enumerated for every size up
//! to a bound well beyond the exhaustive small-scope families.  They are not
//! exhaustive over shapes; they are exhaustive over the sizes of each shape, so
//! that a defect which needs the 5th element, the 9th clause, the 17th variable
//! id or the 33rd answer is inside the explored space.

use crate::gen::Case;
use crate::prog::*;
use crate::refbuiltins::Rel;
use crate::term::*;

fn a() -> T {
    atom("a")
}
fn b() -> T {
    atom("b")
}
fn vn(i: usize) -> T {
    v(&format!("$V{}", i))
}
/// Sizes at which a width, a capacity or a counter typically overflows (and their neighbours).
fn sizes(level: u8) -> Vec<usize> {
    let mut v = vec![4, 5, 7, 8, 9, 15, 16, 17, 20, 21, 31, 32, 33, 40, 41, 63, 64, 65, 100, 101, 127, 128, 129];
    if level >= 2 {
        v.extend([255, 256, 257, 300]);
    }
    v
}
fn small_sizes(level: u8) -> Vec<usize> {
    let mut v = vec![4, 5, 8, 9, 12, 15, 16, 17, 20, 21, 32, 33];
    if level >= 2 {
        v.extend([40, 41, 64, 65]);
    }
    v
}
/// Positions inside something of size k: all of them while k is small, then the ends, the middle
/// and the neighbours of the powers of two.
fn positions(k: usize, inclusive: bool) -> Vec<usize> {
    let top = if inclusive { k } else { k - 1 };
    if k <= 9 {
        return (0..=top).collect();
    }
    let mut v: Vec<usize> = vec![0, 1, 3, 4, 7, 8, 9, 15, 16, 17, 31, 32, 33, k / 2, k - 2, k - 1, k].into_iter().filter(|j| *j <= top).collect();
    v.sort();
    v.dedup();
    v
}
fn ints(n: usize) -> Vec<T> {
    (1..=n as i64).map(T::Int).collect()
}
fn nested(f: &str, d: usize, leaf: T) -> T {
    (0..d).fold(leaf, |t, _| cplx(f, vec![t]))
}
fn nested_list(d: usize, leaf: T) -> T {
    (0..d).fold(leaf, |t, _| list(vec![t, a()]))
}

/// C01: clause tables, rule chains, long conjunctions / disjunctions, many variables,
/// recursion over long lists, deep terms, many retries.
pub fn core(level: u8, f: &mut dyn FnMut(Case)) {
    let fam = "scale";
    for &n in &sizes(level) {
        // 1. a predicate with n clauses
        let mut p: Program = (1..=n as i64).map(|i| fact("p", vec![T::Int(i)])).collect();
        p.push(rule("w", vec![v("$X"), v("$Y")], G::And(vec![call("p", vec![v("$X")]), call("p", vec![v("$Y")]), G::Cmp(Rel::Eq, v("$X"), v("$Y"))])));
        let mut qs = vec![cplx("p", vec![T::Int(0)])];
        if n <= 65 {
            qs.push(cplx("p", vec![v("$Z")]));
        }
        for k in [1, n / 2, n - 1, n] {
            qs.push(cplx("p", vec![T::Int(k as i64)]));
        }
        if n <= 8 {
            qs.push(cplx("w", vec![v("$Z"), v("$W")]));
        }
        f(Case { family: fam, prog: p, queries: qs });

        // 2. a chain of n rules
        let mut p: Program = vec![];
        for i in 0..n {
            p.push(rule(&format!("c{}", i), vec![v("$X")], call(&format!("c{}", i + 1), vec![v("$X")])));
        }
        p.push(fact(&format!("c{}", n), vec![a()]));
        p.push(fact(&format!("c{}", n), vec![b()]));
        f(Case { family: fam, prog: p, queries: vec![cplx("c0", vec![v("$Z")]), cplx("c0", vec![b()]), cplx("c0", vec![atom("z")])] });

        // 8. many retries: the generator has n answers, only the first and the last pass the test
        let mut p: Program = (1..=n as i64).map(|i| fact("g", vec![T::Int(i)])).collect();
        p.push(fact("t", vec![T::Int(n as i64)]));
        p.push(fact("t", vec![T::Int(1)]));
        p.push(rule("p", vec![v("$X")], G::And(vec![call("g", vec![v("$X")]), call("t", vec![v("$X")])])));
        p.push(rule("p2", vec![v("$X"), v("$Y")], G::And(vec![call("g", vec![v("$X")]), call("t", vec![v("$Y")]), G::Cmp(Rel::Eq, v("$Y"), v("$X"))])));
        f(Case { family: fam, prog: p, queries: vec![cplx("p", vec![v("$Z")]), cplx("p2", vec![v("$Z"), v("$W")])] });

        // 6. recursion over a list of n elements (the engine's cost grows faster than n^2: a query over
        //    128 elements takes seconds, so the quick tier stops at 41 and the thorough tier at 129)
        if n > if level >= 2 { 129 } else { 41 } {
            continue;
        }
        let l = list(ints(n));
        let h = || v("$H");
        let t = || v("$T");
        let p: Program = vec![
            fact("mem", vec![v("$X"), list_t(vec![v("$X")], T::Anon)]),
            rule("mem", vec![v("$X"), list_t(vec![T::Anon], t())], call("mem", vec![v("$X"), t()])),
            fact("app", vec![list(vec![]), v("$L"), v("$L")]),
            rule("app", vec![list_t(vec![h()], t()), v("$L"), list_t(vec![h()], v("$R"))], call("app", vec![t(), v("$L"), v("$R")])),
            fact("len", vec![list(vec![]), T::Int(0)]),
            rule("len", vec![list_t(vec![T::Anon], t()), v("$N")], G::And(vec![call("len", vec![t(), v("$M")]), G::Unify(v("$N"), func("add", vec![v("$M"), T::Int(1)]))])),
            fact("rev", vec![list(vec![]), v("$A"), v("$A")]),
            rule("rev", vec![list_t(vec![h()], t()), v("$A"), v("$R")], call("rev", vec![t(), list_t(vec![h()], v("$A")), v("$R")])),
            fact("last", vec![list(vec![v("$X")]), v("$X")]),
            rule("last", vec![list_t(vec![T::Anon], t()), v("$X")], call("last", vec![t(), v("$X")])),
        ];
        let mut qs = vec![
            cplx("mem", vec![T::Int(n as i64), l.clone()]),
            cplx("mem", vec![T::Int(0), l.clone()]),
            cplx("app", vec![l.clone(), list(vec![a()]), v("$Z")]),
            cplx("len", vec![l.clone(), v("$N")]),
            cplx("rev", vec![l.clone(), list(vec![]), v("$R")]),
            cplx("last", vec![l.clone(), v("$Z")]),
            cplx("app", vec![list(ints(n / 2)), v("$Z"), l.clone()]),
        ];
        if n <= 65 {
            qs.push(cplx("mem", vec![v("$Z"), l.clone()]));
            qs.push(cplx("app", vec![v("$X"), v("$Y"), l.clone()]));
        }
        f(Case { family: fam, prog: p, queries: qs });
    }
    for &k in &small_sizes(level) {
        // 3. a conjunction of k goals; the j-th one is the only one that can fail
        for j in positions(k, true) {
            let goals: Vec<G> = (0..k).map(|i| if i + 1 == j { call("r", vec![v("$X")]) } else { call("q", vec![v("$X")]) }).collect();
            let p: Program = vec![fact("q", vec![a()]), fact("q", vec![b()]), fact("r", vec![b()]), rule("p", vec![v("$X")], G::And(goals))];
            f(Case { family: fam, prog: p, queries: vec![cplx("p", vec![v("$Z")]), cplx("p", vec![a()])] });
        }
        // 4. a disjunction of k alternatives (and the j-th one failing)
        for j in positions(k, true) {
            let alts: Vec<G> = (1..=k).map(|i| if i == j { G::Fail } else { G::Unify(v("$X"), T::Int(i as i64)) }).collect();
            let p: Program = vec![rule("p", vec![v("$X")], G::Or(alts)), rule("u", vec![v("$X"), v("$Y")], G::And(vec![call("p", vec![v("$X")]), call("p", vec![v("$Y")]), G::Cmp(Rel::Lt, v("$Y"), v("$X")), G::Cmp(Rel::Gt, v("$Y"), T::Int(k as i64 - 2))]))];
            f(Case { family: fam, prog: p, queries: vec![cplx("p", vec![v("$Z")]), cplx("p", vec![T::Int(k as i64)]), cplx("u", vec![v("$Z"), v("$W")])] });
        }
        // 5. k variables in one clause, chained by unifications; closed with a constant at either end
        let vars: Vec<T> = (1..=k).map(vn).collect();
        let mut chain: Vec<G> = (1..k).map(|i| G::Unify(vn(i), vn(i + 1))).collect();
        let p: Program = vec![rule("p", vars.clone(), G::And(chain.clone()))];
        let q_all: Vec<T> = (1..=k).map(|i| v(&format!("$Q{}", i))).collect();
        let mut q_last = q_all.clone();
        q_last[k - 1] = a();
        let mut q_first = q_all.clone();
        q_first[0] = a();
        let q_const: Vec<T> = (1..=k).map(|_| a()).collect();
        let mut q_const2 = q_const.clone();
        q_const2[k - 1] = b();
        f(Case { family: fam, prog: p, queries: vec![cplx("p", q_all.clone()), cplx("p", q_last), cplx("p", q_first), cplx("p", q_const), cplx("p", q_const2)] });
        // a fact with k distinct variables (the last one twice) against constants, and the other way round
        let mut hv: Vec<T> = (1..=k).map(vn).collect();
        hv.push(vn(k));
        let mut consts: Vec<T> = (1..=k as i64).map(T::Int).collect();
        consts.push(T::Int(k as i64));
        let mut consts_bad = consts.clone();
        consts_bad[k] = T::Int(0);
        let mut qv: Vec<T> = (1..=k).map(|i| v(&format!("$Q{}", i))).collect();
        qv.push(v(&format!("$Q{}", k)));
        f(Case { family: fam, prog: vec![fact("w", hv), fact("c", consts.clone())], queries: vec![cplx("w", consts.clone()), cplx("w", consts_bad), cplx("c", qv)] });
        // ... and k body-only variables bound one after the other
        chain = (1..=k).map(|i| if i == 1 { G::Unify(vn(1), a()) } else { G::Unify(vn(i), cplx("f", vec![vn(i - 1)])) }).collect();
        chain.push(G::Unify(v("$X"), vn(k)));
        f(Case { family: fam, prog: vec![rule("p", vec![v("$X")], G::And(chain))], queries: vec![cplx("p", vec![v("$Z")])] });
        // 7. terms nested k deep, in facts and in queries
        let deep = nested("f", k, a());
        let deepl = nested_list(k, a());
        let p: Program = vec![fact("d", vec![deep.clone()]), fact("d", vec![nested("f", k, v("$X"))]), fact("dl", vec![deepl.clone()]), fact("eq", vec![v("$A"), v("$A")])];
        f(Case {
            family: fam,
            prog: p,
            queries: vec![cplx("d", vec![v("$Z")]), cplx("d", vec![nested("f", k, v("$Z"))]), cplx("d", vec![nested("f", k - 1, v("$Z"))]), cplx("dl", vec![v("$Z")]), cplx("eq", vec![deepl.clone(), v("$Z")]), cplx("eq", vec![deep.clone(), nested("f", k, v("$Z"))])],
        });
    }
}

/// C10 / C11: variable names that are long and share a long prefix.
pub fn names(_level: u8, f: &mut dyn FnMut(Case)) {
    for n in [3usize, 8, 15, 16, 17, 24, 31, 32, 33, 64, 65] {
        let stem = "T".repeat(n);
        let (x1, x2) = (v(&format!("${}es", stem)), v(&format!("${}Rate", stem)));
        let p: Program = vec![
            fact("swap", vec![x1.clone(), x2.clone(), x2.clone(), x1.clone()]),
            fact("q", vec![a()]),
            fact("q", vec![b()]),
            rule("p", vec![x1.clone(), x2.clone()], G::And(vec![call("q", vec![x1.clone()]), call("q", vec![x2.clone()]), G::Cmp(Rel::Lt, x1.clone(), x2.clone())])),
        ];
        f(Case { family: "scale", prog: p, queries: vec![cplx("swap", vec![a(), b(), v("$Z"), v("$W")]), cplx("p", vec![v("$Z"), v("$W")])] });
    }
}

/// C02: the cut at every position of a long conjunction, in every clause of a long predicate, under deep calls.
pub fn cut(level: u8, f: &mut dyn FnMut(Case)) {
    let fam = "cut@scale";
    let wrappers = || -> Program {
        vec![
            fact("q", vec![a()]),
            fact("q", vec![b()]),
            fact("q", vec![atom("c")]),
            fact("r", vec![b()]),
            fact("r", vec![atom("c")]),
            rule("top1", vec![v("$X")], G::And(vec![call("p", vec![v("$X")]), call("r", vec![v("$X")])])),
            rule("top2", vec![v("$X")], G::Or(vec![call("p", vec![v("$X")]), call("q", vec![v("$X")])])),
            rule("top4", vec![v("$X"), v("$Y")], G::And(vec![call("q", vec![v("$Y")]), call("p", vec![v("$X")])])),
        ]
    };
    let queries = vec![cplx("p", vec![v("$Z")]), cplx("p", vec![b()]), cplx("top1", vec![v("$Z")]), cplx("top2", vec![v("$Z")]), cplx("top4", vec![v("$Z"), v("$W")])];
    for &k in &small_sizes(level) {
        // cut as the j-th of k goals; the goals around it have several answers; the last may fail
        for j in positions(k, false) {
            for tail_fails in [false, true] {
                // left of the cut: goals with three answers each (never retried once the cut ran);
                // right of it: deterministic goals, then one goal with three answers (the goals to the
                // right of a cut may backtrack among themselves, so more would multiply)
                let mut goals: Vec<G> = (0..k).map(|i| if i == j { G::Cut } else if i < j { call("q", vec![v(&format!("$Y{}", i))]) } else { call("r", vec![b()]) }).collect();
                goals.push(call("q", vec![v("$X")]));
                if tail_fails {
                    goals.push(call("r", vec![v("$X")]));
                }
                let mut p = wrappers();
                p.push(rule("p", vec![v("$X")], G::And(goals)));
                p.push(fact("p", vec![atom("z")]));
                f(Case { family: fam, prog: p, queries: queries.clone() });
            }
        }
        // cut in the j-th of k clauses
        for j in positions(k, false) {
            let mut p = wrappers();
            for i in 0..k {
                if i == j {
                    p.push(rule("p", vec![v("$X")], G::And(vec![call("r", vec![v("$X")]), G::Cut])));
                } else {
                    p.push(fact("p", vec![T::Int(i as i64)]));
                }
            }
            f(Case { family: fam, prog: p, queries: queries.clone() });
        }
        // (many clauses: the cut in the first and in the last of 2k+1, 4k+1 clauses)
        for kk in [2 * k + 1, 4 * k + 1] {
            for j in [0, kk - 1] {
                let mut p = wrappers();
                for i in 0..kk {
                    if i == j {
                        p.push(rule("p", vec![v("$X")], G::And(vec![call("r", vec![v("$X")]), G::Cut, G::Fail])));
                    } else {
                        p.push(fact("p", vec![T::Int(i as i64)]));
                    }
                }
                let mut qs = vec![cplx("p", vec![b()]), cplx("top1", vec![v("$Z")])];
                // (with the cut clause first the call has no answer at all; with it last it has kk - 1)
                if kk <= 60 || j == 0 {
                    qs.push(cplx("p", vec![v("$Z")]));
                }
                f(Case { family: fam, prog: p, queries: qs });
            }
        }
        // a cut k calls down must stay there; a cut at the top after k calls
        let mut p = wrappers();
        for i in 0..k {
            p.push(rule(&format!("c{}", i), vec![v("$X")], call(&format!("c{}", i + 1), vec![v("$X")])));
            p.push(fact(&format!("c{}", i), vec![atom("z")]));
        }
        p.push(rule(&format!("c{}", k), vec![v("$X")], G::And(vec![call("q", vec![v("$X")]), G::Cut])));
        p.push(rule("p", vec![v("$X")], call("c0", vec![v("$X")])));
        p.push(fact("p", vec![b()]));
        f(Case { family: fam, prog: p, queries: queries.clone() });
        // cut inside a disjunction that is the j-th alternative of k
        for j in positions(k, false) {
            let alts: Vec<G> = (0..k).map(|i| if i == j { G::And(vec![call("r", vec![v("$X")]), G::Cut]) } else { G::Unify(v("$X"), T::Int(i as i64)) }).collect();
            let mut p = wrappers();
            p.push(rule("p", vec![v("$X")], G::Or(alts)));
            p.push(fact("p", vec![atom("z")]));
            f(Case { family: fam, prog: p, queries: queries.clone() });
        }
    }
}

/// C03: not nested k deep, not in long conjunctions, not over goals with many answers.
pub fn not(level: u8, f: &mut dyn FnMut(Case)) {
    let fam = "not@scale";
    for &k in &small_sizes(level) {
        let base = || -> Program { (1..=k as i64).map(|i| fact("g", vec![T::Int(i)])).chain(vec![fact("q", vec![a()]), fact("q", vec![b()]), fact("r", vec![b()])]).collect() };
        // not^k(q(a)) and not^k(q(z))
        for inner in [call("q", vec![a()]), call("q", vec![atom("z")]), call("r", vec![v("$X")])] {
            let g = (0..k).fold(inner.clone(), |g, _| G::Not(Box::new(g)));
            let mut p = base();
            p.push(rule("p", vec![v("$X")], G::And(vec![call("q", vec![v("$X")]), g])));
            f(Case { family: fam, prog: p, queries: vec![cplx("p", vec![v("$Z")])] });
        }
        // the negated goal has k answers / its k-th is the first that fits
        let mut p = base();
        p.push(rule("p", vec![v("$X")], G::And(vec![call("q", vec![v("$X")]), G::Not(Box::new(G::And(vec![call("g", vec![v("$Y")]), G::Cmp(Rel::Ge, v("$Y"), T::Int(k as i64))])))])));
        p.push(rule("p2", vec![v("$X")], G::And(vec![call("g", vec![v("$X")]), G::Not(Box::new(G::And(vec![call("g", vec![v("$Y")]), G::Cmp(Rel::Gt, v("$Y"), v("$X"))])))])));
        f(Case { family: fam, prog: p, queries: vec![cplx("p", vec![v("$Z")]), cplx("p2", vec![v("$Z")])] });
        // k nots in a row in one conjunction
        let mut goals = vec![call("q", vec![v("$X")])];
        for i in 0..k {
            goals.push(G::Not(Box::new(if i + 1 == k { call("r", vec![v("$X")]) } else { call("q", vec![T::Int(i as i64)]) })));
        }
        let mut p = base();
        p.push(rule("p", vec![v("$X")], G::And(goals)));
        f(Case { family: fam, prog: p, queries: vec![cplx("p", vec![v("$Z")])] });
    }
}

/// C03: negated comparisons at the magnitudes where a number stops being exact in another width.
pub fn not_cmp(_level: u8, f: &mut dyn FnMut(Case)) {
    let two53 = 1i64 << 53;
    let dom = vec![
        T::Int(i32::MAX as i64),
        T::Int(i32::MAX as i64 + 1),
        T::Int(1i64 << 32),
        T::Int(two53),
        T::Int(two53 + 1),
        T::Int(i64::MAX - 1),
        T::Int(i64::MAX),
        T::Int(i64::MIN),
        T::Float(two53 as f64),
        T::Float(1e300),
        T::Float(0.1),
        T::Int(1),
        T::Float(1.0),
        atom("1"),
    ];
    for x in &dom {
        for y in &dom {
            for rel in Rel::ALL {
                let p: Program = vec![
                    rule("p", vec![atom("bound")], G::And(vec![G::Unify(v("$A"), x.clone()), G::Unify(v("$B"), y.clone()), G::Not(Box::new(G::Cmp(rel, v("$A"), v("$B"))))])),
                    rule("p", vec![atom("literal")], G::Not(Box::new(G::Cmp(rel, x.clone(), y.clone())))),
                    rule("p", vec![atom("twice")], G::Not(Box::new(G::Not(Box::new(G::Cmp(rel, x.clone(), y.clone())))))),
                    // the negated goal is a unification of the two (1 = 1.0 fails although 1 == 1.0 holds)
                    rule("p", vec![atom("unify")], G::And(vec![G::Unify(v("$A"), x.clone()), G::Unify(v("$B"), y.clone()), G::Not(Box::new(G::Unify(v("$A"), v("$B"))))])),
                    rule("p", vec![atom("unify-literal")], G::Not(Box::new(G::Unify(x.clone(), y.clone())))),
                ];
                f(Case { family: "not@scale", prog: p, queries: vec![cplx("p", vec![v("$Z")])] });
            }
        }
    }
}

/// C04: long formats, many prints, long print_list, output across many retries.
pub fn output(level: u8, f: &mut dyn FnMut(Case)) {
    let fam = "output@scale";
    for &k in &small_sizes(level) {
        let gen: Program = (1..=k as i64).map(|i| fact("g", vec![T::Int(i)])).collect();
        let fmt: String = (0..k).map(|i| format!("{}%s", i)).collect::<String>() + ".";
        let mut args = vec![atom(&fmt)];
        args.extend((0..k).map(|i| if i % 2 == 0 { v("$X") } else { T::Int(i as i64) }));
        let mut p = gen.clone();
        p.push(rule("p", vec![v("$X")], G::And(vec![call("g", vec![v("$X")]), G::Print(args), G::Nl, G::Cmp(Rel::Ge, v("$X"), T::Int(k as i64 - 1))])));
        f(Case { family: fam, prog: p, queries: vec![cplx("p", vec![v("$Z")])] });
        // j markers, k values (j = 1, 2, k-1, k+1), values beyond the markers follow the text
        for j in [1usize, 2, k - 1, k + 1] {
            let fmt: String = (0..j).map(|i| format!("{}%s", i)).collect::<String>() + ": ";
            let mut args = vec![atom(&fmt)];
            args.extend((0..k).map(|i| if i % 2 == 0 { v("$X") } else { T::Int(i as i64) }));
            let mut p = gen.clone();
            p.push(rule("p", vec![v("$X")], G::And(vec![call("g", vec![v("$X")]), G::Print(args), G::Nl, G::Cmp(Rel::Ge, v("$X"), T::Int(k as i64 - 1))])));
            f(Case { family: fam, prog: p, queries: vec![cplx("p", vec![v("$Z")])] });
        }
        // print_list of a short list whose tail is bound (through one and two steps) to k elements
        for hops in [1usize, 2] {
            let tail_list = list((0..k).map(|i| if i == k / 2 { v("$X") } else { T::Int(i as i64) }).collect());
            let mut goals = vec![G::Unify(v("$X"), T::Int(7))];
            if hops == 2 {
                goals.push(G::Unify(v("$T"), v("$T2")));
                goals.push(G::Unify(v("$T2"), tail_list));
            } else {
                goals.push(G::Unify(v("$T"), tail_list));
            }
            goals.push(G::PrintList(vec![list_t(vec![a()], v("$T"))]));
            goals.push(G::PrintList(vec![list_t(vec![a(), b(), v("$X")], v("$T"))]));
            f(Case { family: fam, prog: vec![rule("p", vec![v("$X")], G::And(goals))], queries: vec![cplx("p", vec![v("$Z")])] });
        }
        let mut p = gen.clone();
        let mut goals = vec![call("g", vec![v("$X")])];
        goals.extend((0..k).map(|i| G::Print(vec![T::Int(i as i64), atom(":"), v("$X"), atom(" ")])));
        goals.push(G::PrintList(vec![list((0..k).map(|i| if i == 1 { v("$X") } else { T::Int(i as i64) }).collect())]));
        goals.push(G::Cmp(Rel::Gt, v("$X"), T::Int(k as i64 - 2)));
        p.push(rule("p", vec![v("$X")], G::And(goals)));
        f(Case { family: fam, prog: p, queries: vec![cplx("p", vec![v("$Z")])] });
    }
}

/// C12 C16 C17 (C15): long argument lists, long lists, long tail chains.
pub fn builtins(level: u8, which: &str, f: &mut dyn FnMut(Case)) {
    let one = |family: &'static str, head: Vec<T>, body: Vec<G>, q: Vec<T>, f: &mut dyn FnMut(Case)| {
        let body = if body.len() == 1 { body.into_iter().next().unwrap() } else { G::And(body) };
        f(Case { family, prog: vec![rule("p", head, body)], queries: vec![cplx("p", q)] });
    };
    for &n in &sizes(level) {
        let l = list(ints(n));
        // a tail chain: [1, 2 | $T1], $T1 = [3, 4 | $T2], ... (chunks of 2), n elements in all
        let mut pre: Vec<G> = vec![];
        let chunks: Vec<Vec<T>> = ints(n).chunks(2).map(|c| c.to_vec()).collect();
        for (i, c) in chunks.iter().enumerate().rev() {
            let tl = if i + 1 == chunks.len() { list(c.clone()) } else { list_t(c.clone(), v(&format!("$T{}", i + 1))) };
            pre.push(G::Unify(v(&format!("$T{}", i)), tl));
        }
        let chained = v("$T0");
        match which {
            "append" => {
                one("append@scale", vec![v("$O")], vec![G::Bip("append".into(), vec![l.clone(), list(vec![a()]), v("$O")])], vec![v("$Z")], f);
                one("append@scale", vec![v("$O")], vec![G::Bip("append".into(), vec![a(), l.clone(), b(), l.clone(), v("$O")])], vec![v("$Z")], f);
                let mut body = pre.clone();
                body.push(G::Bip("append".into(), vec![chained.clone(), list(vec![a()]), v("$O")]));
                one("append@scale", vec![v("$O")], body, vec![v("$Z")], f);
                // n dummy variables first, so that the tail variable has a large id
                let mut body: Vec<G> = (0..n).map(|i| G::Unify(v(&format!("$D{}", i)), T::Int(i as i64))).collect();
                body.push(G::Unify(v("$T"), list(vec![b(), a()])));
                body.push(G::Unify(v("$U"), list_t(vec![T::Int(0)], v("$T"))));
                body.push(G::Bip("append".into(), vec![list_t(vec![a()], v("$U")), b(), v("$O")]));
                one("append@scale", vec![v("$O")], body, vec![v("$Z")], f);
                if n <= 17 {
                    // n inputs
                    let mut args: Vec<T> = (0..n).map(|i| if i % 3 == 0 { list(vec![T::Int(i as i64)]) } else { T::Int(i as i64) }).collect();
                    args.push(v("$O"));
                    one("append@scale", vec![v("$O")], vec![G::Bip("append".into(), args)], vec![v("$Z")], f);
                }
            }
            "count" => {
                one("count@scale", vec![v("$N")], vec![G::Bip("count".into(), vec![l.clone(), v("$N")])], vec![v("$Z")], f);
                let mut body = pre.clone();
                body.push(G::Bip("count".into(), vec![chained.clone(), v("$N")]));
                one("count@scale", vec![v("$N")], body, vec![v("$Z")], f);
                let mut body = pre.clone();
                body.push(G::Bip("count".into(), vec![list_t(vec![a(), b()], chained.clone()), T::Int(n as i64 + 2)]));
                one("count@scale", vec![atom("ok")], body, vec![v("$Z")], f);
            }
            "filter" => {
                let mixed = list((0..n).map(|i| if i % 3 == 0 { cplx("f", vec![T::Int(i as i64)]) } else if i % 3 == 1 { a() } else { T::Int(i as i64) }).collect());
                for name in ["include", "exclude"] {
                    one("filter@scale", vec![v("$O")], vec![G::Bip(name.into(), vec![cplx("f", vec![T::Anon]), mixed.clone(), v("$O")])], vec![v("$Z")], f);
                    one("filter@scale", vec![v("$O")], vec![G::Bip(name.into(), vec![a(), mixed.clone(), v("$O")])], vec![v("$Z")], f);
                    let mut body = pre.clone();
                    body.push(G::Bip(name.into(), vec![T::Int(n as i64), chained.clone(), v("$O")]));
                    one("filter@scale", vec![v("$O")], body, vec![v("$Z")], f);
                }
            }
            "join" => {
                let words: Vec<T> = (0..n).map(|i| if i % 4 == 3 { atom(",") } else if i % 5 == 4 { atom("?") } else { atom(&format!("w{}", i)) }).collect();
                one("join@scale", vec![v("$O")], vec![G::Unify(v("$O"), func("join", words.clone()))], vec![v("$Z")], f);
                one("join@scale", vec![v("$O")], vec![G::Unify(v("$O"), func("join", vec![list(words.clone())]))], vec![v("$Z")], f);
            }
            "functor" => {
                if n <= 17 {
                    let t = cplx("foo", ints(n));
                    one("functor@scale", vec![v("$F"), v("$A")], vec![G::Bip("functor".into(), vec![t.clone(), v("$F"), v("$A")])], vec![v("$Z"), v("$W")], f);
                    one("functor@scale", vec![atom("ok"), atom("ok")], vec![G::Bip("functor".into(), vec![t.clone(), atom("fo*"), T::Int(n as i64)])], vec![v("$Z"), v("$W")], f);
                    let long = "f".repeat(n) + "*";
                    one("functor@scale", vec![atom("ok"), atom("ok")], vec![G::Bip("functor".into(), vec![cplx(&("f".repeat(n) + "oo"), vec![a()]), atom(&long)])], vec![v("$Z"), v("$W")], f);
                }
            }
            "arith" => {
                if n <= 17 {
                    for op in ["add", "subtract", "multiply", "divide"] {
                        let args: Vec<T> = (0..n).map(|i| if op == "multiply" || op == "divide" { T::Int(1 + (i as i64 % 3)) } else { T::Int(i as i64 + 1) }).collect();
                        one("arith@scale", vec![v("$O")], vec![G::Unify(v("$O"), func(op, args.clone()))], vec![v("$Z")], f);
                        let mut fl = args.clone();
                        fl[n - 1] = T::Float(0.5);
                        one("arith@scale", vec![v("$O")], vec![G::Unify(v("$O"), func(op, fl))], vec![v("$Z")], f);
                    }
                }
            }
            _ => {}
        }
    }
}

/// C14: long atoms with long common prefixes, long digit strings.
pub fn cmp(_level: u8, f: &mut dyn FnMut(Case)) {
    for n in [3usize, 7, 8, 9, 15, 16, 17, 31, 32, 33, 63, 64, 65, 128, 129] {
        let stem = "ab".repeat(n);
        let pairs: Vec<(T, T)> = vec![
            (atom(&stem), atom(&format!("{}c", stem))),
            (atom(&format!("{}c", stem)), atom(&stem)),
            (atom(&format!("{}c", stem)), atom(&format!("{}d", stem))),
            (atom(&stem), atom(&stem)),
            (atom(&format!("{}é", stem)), atom(&format!("{}z", stem))),
            // two differences inside one machine word, pulling in opposite directions
            (atom(&format!("{}bz{}", stem, stem)), atom(&format!("{}ca{}", stem, stem))),
            (atom(&format!("b{}a", stem)), atom(&format!("a{}b", stem))),
            (atom(&format!("{}bxxxxa", stem)), atom(&format!("{}axxxxb", stem))),
            (T::Int(10i64.pow(n.min(18) as u32) - 1), T::Int(10i64.pow(n.min(18) as u32) - 2)),
            (T::Float(0.1 * n as f64), T::Int(n as i64 / 10)),
        ];
        for (x, y) in pairs {
            for rel in Rel::ALL {
                f(Case { family: "cmp@scale", prog: vec![rule("p", vec![atom("ok"), v("$U")], G::And(vec![G::Unify(v("$A"), x.clone()), G::Cmp(rel, v("$A"), y.clone())]))], queries: vec![cplx("p", vec![v("$Z"), v("$W")])] });
            }
        }
    }
}

/// C14: an operand that is k bindings away from its value (in one clause, and down a recursion).
pub fn cmp_chain(level: u8, f: &mut dyn FnMut(Case)) {
    let mut ks = sizes(level);
    for k in [255usize, 256, 257, 300] {
        if !ks.contains(&k) {
            ks.push(k);
        }
    }
    for &k in &ks {
        for up in [true, false] {
            let mut goals: Vec<G> = (1..k).map(|i| if up { G::Unify(vn(i), vn(i + 1)) } else { G::Unify(vn(i + 1), vn(i)) }).collect();
            goals.push(G::Unify(vn(if up { k } else { 1 }), T::Int(5)));
            goals.push(G::Cmp(Rel::Gt, vn(if up { 1 } else { k }), T::Int(3)));
            goals.push(G::Cmp(Rel::Le, T::Int(5), vn(k / 2 + 1)));
            goals.push(G::Unify(v("$X"), vn(1)));
            f(Case { family: "cmp@scale", prog: vec![rule("p", vec![v("$X")], G::And(goals))], queries: vec![cplx("p", vec![v("$Z")])] });
        }
    }
}

/// C08: long alias chains closed from either end, through rule heads.
pub fn alias(level: u8, f: &mut dyn FnMut(Case)) {
    let fam = "scale";
    for &k in &small_sizes(level) {
        for close_forward in [true, false] {
            for order_up in [true, false] {
                let mut goals: Vec<G> = (1..k).map(|i| if order_up { G::Unify(vn(i), vn(i + 1)) } else { G::Unify(vn(i + 1), vn(i)) }).collect();
                goals.push(if close_forward { G::Unify(vn(k), vn(1)) } else { G::Unify(vn(1), vn(k)) });
                goals.push(G::Unify(v("$X"), cplx("f", vec![vn(k / 2 + 1)])));
                let p: Program = vec![fact("eq", vec![v("$A"), v("$A")]), rule("p", vec![v("$X"), vn(1)], G::And(goals))];
                f(Case { family: fam, prog: p, queries: vec![cplx("p", vec![v("$Z"), v("$W")]), cplx("p", vec![v("$Z"), a()])] });
            }
        }
        // the same chain built through a rule head that repeats a variable
        let mut goals: Vec<G> = (1..k).map(|i| call("eq", vec![vn(i), vn(i + 1)])).collect();
        goals.push(call("eq", vec![vn(k), vn(1)]));
        goals.push(call("eq", vec![vn(2), v("$X")]));
        let p: Program = vec![fact("eq", vec![v("$A"), v("$A")]), rule("p", vec![v("$X")], G::And(goals))];
        f(Case { family: fam, prog: p, queries: vec![cplx("p", vec![v("$Z")]), cplx("p", vec![a()])] });
    }
}
