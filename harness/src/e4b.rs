//! E4 — C21: loading a file equals parsing its rules one by one.  Every
//! program of the rule grammar is rendered with every subset (capped) of the
//! legal break points, indentation styles, blank lines and comments, written
//! to a scratch file and loaded by the real `load_kb_from_file`.

use crate::e1::panic_text;
use crate::e4::{grammar_rules, install_site_hook, Emit};
use crate::prog::*;
use crate::supervise::Worker;
use serde_json::{json, Value};
use std::collections::HashMap;
use std::panic::{catch_unwind, AssertUnwindSafe};

/// Positions (char index of the continuation character) after which the line
/// may be broken: `-` `,` `;` `=` followed by a space, outside quotes.
fn break_points(text: &str) -> Vec<usize> {
    let cs: Vec<char> = text.chars().collect();
    let mut out = vec![];
    let mut in_quote = false;
    for i in 0..cs.len() {
        let c = cs[i];
        if c == '"' && (i == 0 || cs[i - 1] != '\\') {
            in_quote = !in_quote;
        }
        if in_quote {
            continue;
        }
        if (c == '-' || c == ',' || c == ';' || c == '=') && i + 1 < cs.len() && cs[i + 1] == ' ' {
            if i > 0 && cs[i - 1] == '\\' {
                continue; // escaped comma is an atom
            }
            out.push(i);
        }
    }
    out
}

/// Depth of parentheses/brackets after each character (comments are only
/// placed where the depth is 0).
fn depth_after(text: &str) -> Vec<i32> {
    let mut d = 0;
    text.chars()
        .map(|c| {
            if c == '(' || c == '[' {
                d += 1
            }
            if c == ')' || c == ']' {
                d -= 1
            }
            d
        })
        .collect()
}

#[derive(Clone, Copy, Debug)]
pub struct Style {
    pub indent: u8,  // 0 none, 1 two spaces, 2 tab
    pub blank: bool, // blank line between rules
    pub comment: u8, // 0 none, 1 `# c` own line, 2 `% c` at end of the first depth-0 line, 3 `// c` likewise
    /// between the lines of one rule: 0 nothing, 1 a blank line after every break,
    /// 2 a comment-only line after every break that is outside parentheses and brackets
    pub inner: u8,
}

pub fn render(rule_texts: &[String], subsets: &[u64], st: Style) -> String {
    let mut out = String::new();
    for (ri, text) in rule_texts.iter().enumerate() {
        let cs: Vec<char> = text.chars().collect();
        let bps = break_points(text);
        let depth = depth_after(text);
        let mask = subsets.get(ri).copied().unwrap_or(0);
        if st.comment == 1 {
            out.push_str("# a comment line, with (parens. and a period.\n");
        }
        let mut line = String::new();
        let mut commented = false;
        let mut i = 0;
        while i < cs.len() {
            line.push(cs[i]);
            let bi = bps.iter().position(|&b| b == i);
            let brk = bi.map_or(false, |k| k < 64 && (mask >> k) & 1 == 1);
            if brk {
                if !commented && depth[i] == 0 && st.comment >= 2 {
                    line.push_str(if st.comment == 2 { "   % trailing comment (x." } else { "   // trailing comment [y." });
                    commented = true;
                }
                out.push_str(&line);
                out.push('\n');
                if st.inner == 1 {
                    out.push('\n');
                } else if st.inner == 2 && depth[i] == 0 {
                    out.push_str(match i % 3 {
                        0 => "# a comment between two lines of a rule.\n",
                        1 => "   % another one (\n",
                        _ => "\t// and a third\n",
                    });
                }
                line.clear();
                line.push_str(match st.indent {
                    0 => "",
                    1 => "  ",
                    _ => "\t",
                });
                i += 1; // skip the space that followed the continuation character
            }
            i += 1;
        }
        if !commented && st.comment >= 2 {
            line.push_str(if st.comment == 2 { "   % trailing comment" } else { "   // trailing comment" });
        }
        out.push_str(&line);
        out.push('\n');
        if st.blank {
            out.push('\n');
        }
    }
    out
}

fn expected_kb(rule_texts: &[String]) -> Option<suiron::KnowledgeBase> {
    let mut kb = suiron::KnowledgeBase::new();
    for t in rule_texts {
        match catch_unwind(AssertUnwindSafe(|| suiron::parse_rule(t))) {
            Ok(Ok(r)) => suiron::add_rules(&mut kb, vec![r]),
            _ => return None, // the rule parser itself rejects / panics: C18/C19's business
        }
    }
    Some(kb)
}

fn kb_equal(a: &suiron::KnowledgeBase, b: &suiron::KnowledgeBase) -> bool {
    if a.len() != b.len() {
        return false;
    }
    for (k, ra) in a {
        match b.get(k) {
            Some(rb) => {
                if ra.len() != rb.len() || !ra.iter().zip(rb.iter()).all(|(x, y)| x.head == y.head && x.body == y.body) {
                    return false;
                }
            }
            None => return false,
        }
    }
    true
}

pub enum Loaded {
    Same,
    Rejected(String),
    Different(String),
    Panic(String),
}

pub fn load_and_compare(path: &std::path::Path, file_text: &str, expect: &suiron::KnowledgeBase) -> Loaded {
    load_into(path, file_text, expect, suiron::KnowledgeBase::new())
}

/// Load the file into a knowledge base that already holds rules.
pub fn load_into(path: &std::path::Path, file_text: &str, expect: &suiron::KnowledgeBase, mut kb: suiron::KnowledgeBase) -> Loaded {
    if std::fs::write(path, file_text).is_err() {
        return Loaded::Panic("cannot write scratch file".into());
    }
    let p = path.to_string_lossy().into_owned();
    match catch_unwind(AssertUnwindSafe(|| suiron::load_kb_from_file(&mut kb, &p))) {
        Err(pn) => Loaded::Panic(panic_text(pn)),
        Ok(Some(msg)) => Loaded::Rejected(msg),
        Ok(None) => {
            if kb_equal(&kb, expect) {
                Loaded::Same
            } else {
                Loaded::Different(suiron::format_kb(&kb))
            }
        }
    }
}

fn features(rule_texts: &[String], subsets: &[u64], st: Style) -> String {
    // which continuation characters are actually used as break points, and
    // what the rules contain that the reader is sensitive to
    let mut f: Vec<&str> = vec![];
    for (ri, t) in rule_texts.iter().enumerate() {
        let cs: Vec<char> = t.chars().collect();
        let bps = break_points(t);
        for (k, &b) in bps.iter().enumerate() {
            if k < 64 && (subsets.get(ri).copied().unwrap_or(0) >> k) & 1 == 1 {
                let tag = match cs[b] {
                    '-' => {
                        if b > 0 && cs[b - 1] == ':' {
                            "break-after-neck"
                        } else {
                            "break-after-minus"
                        }
                    }
                    ',' => "break-after-comma",
                    ';' => "break-after-semicolon",
                    _ => "break-after-equals",
                };
                if !f.contains(&tag) {
                    f.push(tag)
                }
            }
        }
        let has_float = cs.windows(3).any(|w| w[0].is_ascii_digit() && w[1] == '.' && w[2].is_ascii_digit());
        if has_float && !f.contains(&"float-literal") {
            f.push("float-literal")
        }
    }
    if st.comment > 0 && !f.contains(&"comment") {
        f.push(match st.comment {
            1 => "comment-line",
            2 => "comment-percent",
            _ => "comment-slashes",
        })
    }
    if st.inner == 1 {
        f.push("blank-line-inside-rule")
    } else if st.inner == 2 {
        f.push("comment-line-inside-rule")
    }
    f.sort();
    f.join("+")
}

fn subsets_for(n_bps: usize, cap: usize) -> Vec<u64> {
    let n = n_bps.min(6);
    let mut v: Vec<u64> = (0..(1u64 << n)).collect();
    // beyond six break points: also "all" and each single one
    if n_bps > 6 {
        v.push(if n_bps >= 64 { u64::MAX } else { (1u64 << n_bps) - 1 });
        for k in 6..n_bps.min(64) {
            v.push(1u64 << k);
        }
    }
    v.truncate(cap.max(1));
    v
}

pub fn worker_c21(tier: &str) {
    let mut w = Worker::from_env();
    install_site_hook();
    let lv: u8 = if tier == "thorough" { 2 } else { 1 };
    let rules: Vec<String> = grammar_rules(lv).iter().map(|c| c.text()).collect();
    let mut extra: Vec<String> = vec![
        "fl($X) :- $X = 1.5, q1(a).".into(),
        "calc($X, $Y, $Out) :- $A = $X + $Y, $B = $A - 6, $C = $B * 3.4, $Out = $C / 3.4.".into(),
        "g($X) :- $X = a.".into(),
        "cmp($X) :- $X <= 1.5; $X >= 2; $X == 3.".into(),
        "pi(3.14159).".into(),
        "w($X) :- $X = \"quoted, text; here = there.\", print(%s\\, %s, $X, [a, b | $T]).".into(),
        "v(1.5, [2.5, 3.5], f(4.5)).".into(),
        // a float as the very last token of a rule; non-ASCII letters in a head
        "half($X) :- $X = 0.5.".into(),
        "m($X, $Y) :- $Y = $X * 1.25.".into(),
        "unit(one).".into(),
        "déjeuner($X) :- café($X), $X = 2.5.".into(),
    ];
    extra.extend(crate::e4::corpus().into_iter().filter(|s| s.ends_with('.') && s.contains('(')));
    // transient scratch file: memory-backed if possible (removed at the end of the run)
    let scratch = if std::path::Path::new("/dev/shm").is_dir() { "/dev/shm".to_string() } else { std::env::var("VH_SCRATCH_RUN").unwrap_or_else(|_| ".".into()) };
    let path = std::path::Path::new(&scratch).join(format!("vh-c21-{}-{}.txt", w.shard, std::process::id()));
    let describe = w.describe;
    let mut idx = 0u64;
    let mut n_s = 0;

    // programs: every rule alone; extra rules alone; pairs and triples of a sample
    let mut programs: Vec<Vec<String>> = vec![];
    for r in extra.iter().chain(rules.iter()) {
        programs.push(vec![r.clone()]);
    }
    let step = if lv >= 2 { 97 } else { 397 };
    let sample: Vec<String> = extra.iter().cloned().chain(rules.iter().step_by(step).cloned()).collect();
    for a in &sample {
        for b in &sample {
            programs.push(vec![a.clone(), b.clone()]);
        }
    }
    let small: Vec<String> = sample.iter().step_by(if lv >= 2 { 3 } else { 6 }).cloned().collect();
    for a in &small {
        for b in &small {
            for c in &small {
                programs.push(vec![a.clone(), b.clone(), c.clone()]);
            }
        }
    }

    let styles_all: Vec<Style> = {
        let mut v = vec![];
        for indent in 0..3u8 {
            for blank in [false, true] {
                for comment in 0..4u8 {
                    v.push(Style { indent, blank, comment, inner: 0 });
                }
            }
        }
        for inner in 1..3u8 {
            v.push(Style { indent: 1, blank: false, comment: 0, inner });
            v.push(Style { indent: 0, blank: true, comment: 2, inner });
            v.push(Style { indent: 2, blank: false, comment: 1, inner });
        }
        v
    };
    let plain = Style { indent: 1, blank: false, comment: 0, inner: 0 };
    let mut e = Emit { w: &mut w, emitted: HashMap::new() };

    for prog in &programs {
        let my = idx;
        idx += 1;
        if describe.is_some() {
            if describe == Some(my) {
                e.w.emit(json!({"t":"describe","class":"file","witness":{"engine":"e4","kind":"c21","rules":prog}}));
                return;
            }
            continue;
        }
        if !e.w.mine(my) {
            continue;
        }
        e.w.begin(my);
        let Some(expect) = expected_kb(prog) else {
            e.w.count("c21.skipped_rule_parser_rejects", 1);
            continue;
        };
        e.w.count("c21.programs", 1);
        // layouts: for single rules every subset (capped) in the plain style and
        // three subsets in every style; for 2-3 rules the product of a few subsets
        let per_rule: Vec<Vec<u64>> = prog.iter().map(|t| subsets_for(break_points(t).len(), if prog.len() == 1 { if lv >= 2 { 64 } else { 16 } } else { 3 })).collect();
        let mut layouts: Vec<(Vec<u64>, Style)> = vec![];
        if prog.len() == 1 {
            for s in &per_rule[0] {
                layouts.push((vec![*s], plain));
            }
            let all = *per_rule[0].last().unwrap_or(&0);
            // every style on the fully broken layout; on the other two only for a sample of rules
            for st in &styles_all {
                layouts.push((vec![all], *st));
                if my % 8 == 0 || lv >= 2 {
                    layouts.push((vec![0u64], *st));
                    layouts.push((vec![1u64], *st));
                }
            }
        } else {
            let mut idxs = vec![0usize; prog.len()];
            'outer: loop {
                let subs: Vec<u64> = idxs.iter().enumerate().map(|(i, &j)| per_rule[i][j]).collect();
                for st in [plain, Style { indent: 2, blank: true, comment: 2, inner: 0 }, Style { indent: 0, blank: false, comment: 3, inner: 1 }, Style { indent: 0, blank: true, comment: 1, inner: 2 }] {
                    layouts.push((subs.clone(), st));
                }
                for i in (0..idxs.len()).rev() {
                    idxs[i] += 1;
                    if idxs[i] < per_rule[i].len() {
                        continue 'outer;
                    }
                    idxs[i] = 0;
                }
                break;
            }
        }
        for (subs, st) in layouts {
            let text = render(prog, &subs, st);
            e.w.beat();
            e.w.count("c21.files_loaded", 1);
            let res = load_and_compare(&path, &text, &expect);
            let feats = features(prog, &subs, st);
            let wit = json!({"engine":"e4","kind":"c21","rules":prog,"file":text});
            match res {
                Loaded::Same => {
                    e.w.count("c21.same", 1);
                    e.w.distinct("outcomes", &("same", feats));
                }
                Loaded::Rejected(m) => {
                    e.w.count("c21.rejected", 1);
                    e.w.distinct("outcomes", &("rejected", feats.clone()));
                    e.viol("C21", format!("rejected-legal-layout:{}", feats), format!("a legal layout was rejected: {} — file:\n{}", m, text), wit);
                }
                Loaded::Different(kb) => {
                    e.w.distinct("outcomes", &("different", feats.clone()));
                    e.viol("C21", format!("different-rules:{}", feats), format!("the file loaded without error as different rules:\n{}\n— file:\n{}", kb, text), wit);
                }
                Loaded::Panic(m) => e.viol("C21", format!("panic:{}", feats), format!("load_kb_from_file panicked: {} — file:\n{}", m, text), wit),
            }
            if n_s < 1 {
                n_s += 1;
                e.w.emit(json!({"t":"sample","v":{"file": text}}));
            }
        }
        // a program spread over two sources: the first k rules are already in the knowledge
        // base (added through the API, or loaded from a file of their own) when the rest is loaded
        if prog.len() >= 2 {
            for k in 1..prog.len() {
                for first_from_file in [false, true] {
                    let mut kb0 = suiron::KnowledgeBase::new();
                    if first_from_file {
                        let t1 = render(&prog[..k], &[], plain);
                        if std::fs::write(&path, &t1).is_err() {
                            continue;
                        }
                        let p = path.to_string_lossy().into_owned();
                        match catch_unwind(AssertUnwindSafe(|| suiron::load_kb_from_file(&mut kb0, &p))) {
                            Ok(None) => {}
                            _ => continue, // judged by the single-file layouts above
                        }
                    } else {
                        let Some(k0) = expected_kb(&prog[..k]) else { continue };
                        kb0 = k0;
                    }
                    let text = render(&prog[k..], &[], plain);
                    e.w.count("c21.files_loaded", 1);
                    e.w.count("c21.loads_into_nonempty_kb", 1);
                    let feats = format!("second-source:{}", if first_from_file { "after-file" } else { "after-add_rules" });
                    let wit = json!({"engine":"e4","kind":"c21","rules":prog,"file":text,"preloaded":k,"preload_from_file":first_from_file});
                    match load_into(&path, &text, &expect, kb0) {
                        Loaded::Same => e.w.distinct("outcomes", &("same", feats)),
                        Loaded::Rejected(m) => e.viol("C21", format!("rejected-legal-layout:{}", feats), format!("a legal file was rejected: {} — file:\n{}", m, text), wit),
                        Loaded::Different(kb) => e.viol("C21", format!("different-rules:{}", feats), format!("loading the last {} rules of {:?} into a knowledge base holding the first {} gave:\n{}", prog.len() - k, prog, k, kb), wit),
                        Loaded::Panic(m) => e.viol("C21", format!("panic:{}", feats), format!("load_kb_from_file panicked: {}", m), wit),
                    }
                }
            }
        }
    }
    // scale: files of many rules (clauses of several predicates interleaved, so that their order is
    // observable), large files (beyond the usual buffer sizes), very long lines and comments
    let scale_ns: Vec<usize> = if lv >= 2 { vec![4, 8, 9, 16, 17, 20, 21, 32, 33, 64, 65, 128, 129, 300, 600, 2000, 5000] } else { vec![8, 9, 16, 17, 20, 21, 32, 33, 64, 65, 128, 129, 300, 600] };
    for &n in &scale_ns {
        let my = idx;
        idx += 1;
        if describe.is_some() || !e.w.mine(my) {
            continue;
        }
        e.w.begin(my);
        let rules: Vec<String> = (0..n)
            .map(|i| match i % 4 {
                0 => format!("p{}({}) :- q({}), $X = {}.", i % 3, i, i, i),
                1 => format!("p{}(item_{}, [a, {} | $T]).", i % 3, i, i),
                2 => format!("p{}($X, $Y) :- $X <= {}; r($Y), not(s({})).", i % 3, i, i),
                _ => format!("long_predicate_name_{}($Argument_one, $Argument_two) :- p0($Argument_one), p1($Argument_two, {}.5).", i % 2, i),
            })
            .collect();
        let Some(expect) = expected_kb(&rules) else {
            e.w.count("c21.skipped_rule_parser_rejects", 1);
            continue;
        };
        e.w.count("c21.programs", 1);
        e.w.count("c21.scale_programs", 1);
        let all_breaks: Vec<u64> = rules.iter().map(|_| u64::MAX).collect();
        let layouts: Vec<(Vec<u64>, Style, &str)> = vec![
            (vec![], plain, "one-line-per-rule"),
            (all_breaks.clone(), Style { indent: 2, blank: true, comment: 2, inner: 0 }, "all-breaks+comments"),
            (all_breaks.clone(), Style { indent: 0, blank: false, comment: 1, inner: 2 }, "all-breaks+comment-lines"),
            (vec![], Style { indent: 0, blank: true, comment: 3, inner: 0 }, "blank-lines+slashes"),
        ];
        for (subs, st, tag) in layouts {
            let mut text = render(&rules, &subs, st);
            if tag == "one-line-per-rule" {
                // plus one very long comment line and one very long rule in the middle of the file
                let long_comment = format!("# {}\n", "comment (with, punctuation. ".repeat(n.max(50)));
                text = format!("{}{}", long_comment, text);
            }
            e.w.beat();
            e.w.count("c21.files_loaded", 1);
            e.w.count(&format!("c21.scale_file_bytes_max.{}", if text.len() > 65536 { ">64k" } else if text.len() > 8192 { ">8k" } else { "<=8k" }), 1);
            let feats = format!("scale:{}:{}-rules", tag, n);
            let wit = json!({"engine":"e4","kind":"c21","rules":rules,"file":text});
            match load_and_compare(&path, &text, &expect) {
                Loaded::Same => e.w.distinct("outcomes", &("same", tag, n)),
                Loaded::Rejected(m) => e.viol("C21", format!("rejected-legal-layout:scale:{}", tag), format!("a legal file of {} rules ({} bytes) was rejected: {}", n, text.len(), m), wit),
                Loaded::Different(kb) => {
                    let kbt: String = kb.chars().take(1500).collect();
                    e.viol("C21", format!("different-rules:scale:{}", tag), format!("a file of {} rules ({} bytes, layout {}) loaded without error as different rules (or in a different order); loaded knowledge base begins:\n{}", n, text.len(), feats, kbt), wit)
                }
                Loaded::Panic(m) => e.viol("C21", format!("panic:scale:{}", tag), format!("load_kb_from_file panicked on a file of {} rules: {}", n, m), wit),
            }
        }
        // one rule with n goals on one line / broken after every comma
        let long_rule = format!("big($X) :- {}.", (0..n.min(600)).map(|i| format!("g{}($X, {})", i % 7, i)).collect::<Vec<_>>().join(", "));
        if let Some(expect1) = expected_kb(&[long_rule.clone()]) {
            for subs in [vec![], vec![u64::MAX]] {
                let text = render(&[long_rule.clone()], &subs, plain);
                e.w.count("c21.files_loaded", 1);
                let wit = json!({"engine":"e4","kind":"c21","rules":[long_rule.clone()],"file":text});
                match load_and_compare(&path, &text, &expect1) {
                    Loaded::Same => {}
                    Loaded::Rejected(m) => e.viol("C21", "rejected-legal-layout:scale:long-rule".into(), format!("a rule of {} goals was rejected: {}", n.min(600), m), wit),
                    Loaded::Different(_) => e.viol("C21", "different-rules:scale:long-rule".into(), format!("a rule of {} goals loaded as different rules", n.min(600)), wit),
                    Loaded::Panic(m) => e.viol("C21", "panic:scale:long-rule".into(), format!("load_kb_from_file panicked on a rule of {} goals: {}", n.min(600), m), wit),
                }
            }
        }
    }
    let _ = std::fs::remove_file(&path);
    w.done();
}

pub fn replay_c21(wit: &Value) -> bool {
    let rules: Vec<String> = wit["rules"].as_array().map(|a| a.iter().filter_map(|x| x.as_str().map(|s| s.to_string())).collect()).unwrap_or_default();
    let text = wit["file"].as_str().unwrap_or("").to_string();
    println!("rules, one by one:");
    for r in &rules {
        println!("  {}", r);
    }
    println!("file:\n{}", text);
    let Some(expect) = expected_kb(&rules) else {
        println!("the rule parser rejects one of the rules: not judged");
        return true;
    };
    println!("expected knowledge base:\n{}", suiron::format_kb(&expect));
    let path = std::env::temp_dir().join(format!("vh-c21-replay-{}.txt", std::process::id()));
    let mut ok = true;
    let pre = wit["preloaded"].as_u64().unwrap_or(0) as usize;
    for round in 0..2 {
        let kb0 = if pre > 0 { expected_kb(&rules[..pre]).unwrap_or_default() } else { suiron::KnowledgeBase::new() };
        if pre > 0 {
            println!("run {}: the first {} rules are already in the knowledge base", round, pre);
        }
        match load_into(&path, &text, &expect, kb0) {
            Loaded::Same => println!("run {}: loaded, same knowledge base", round),
            Loaded::Rejected(m) => {
                println!("run {}: REJECTED: {}", round, m);
                ok = false
            }
            Loaded::Different(kb) => {
                println!("run {}: loaded as DIFFERENT rules:\n{}", round, kb);
                ok = false
            }
            Loaded::Panic(m) => {
                println!("run {}: PANIC {}", round, m);
                ok = false
            }
        }
    }
    let _ = std::fs::remove_file(&path);
    ok
}
