//! Turning an engine run into: stdout verdict lines, exit code, the evidence
//! file, replay files.  Known findings are read from the committed
//! `/verif/known_findings.json` and are never written here.

use crate::supervise::Outcome;
use serde_json::{json, Value};
use std::collections::BTreeMap;
use std::path::PathBuf;

pub fn verif_dir() -> PathBuf {
    if let Ok(d) = std::env::var("VERIF_DIR") {
        return PathBuf::from(d);
    }
    // target/release/vh -> harness -> /verif
    let exe = std::env::current_exe().unwrap();
    let mut p = exe.clone();
    for _ in 0..4 {
        p = p.parent().map(|x| x.to_path_buf()).unwrap_or(p);
    }
    if p.join("properties.jsonl").exists() {
        p
    } else {
        PathBuf::from("/verif")
    }
}

pub fn tier() -> String {
    std::env::var("VERIF_TIER").unwrap_or_else(|_| "quick".into())
}
pub fn seed() -> i64 {
    std::env::var("VERIF_SEED").ok().and_then(|s| s.parse().ok()).unwrap_or(0)
}

pub struct Known {
    pub property: String,
    pub class: String,
    pub what: String,
}

pub fn load_known() -> Vec<Known> {
    let p = verif_dir().join("known_findings.json");
    let Ok(s) = std::fs::read_to_string(&p) else { return vec![] };
    let Ok(v) = serde_json::from_str::<Value>(&s) else {
        eprintln!("machinery: cannot parse {}", p.display());
        std::process::exit(2);
    };
    let mut out = vec![];
    if let Some(a) = v["findings"].as_array() {
        for f in a {
            out.push(Known {
                property: f["property"].as_str().unwrap_or("").to_string(),
                class: f["class"].as_str().unwrap_or("").to_string(),
                what: f["what"].as_str().unwrap_or("").to_string(),
            });
        }
    }
    out
}

pub struct Verdict {
    pub property: String,
    pub level: String,
    /// coverage object (engine fills the level's required keys)
    pub coverage: Value,
    pub assumptions: Vec<String>,
}

fn slug(s: &str) -> String {
    let mut o: String = s.chars().map(|c| if c.is_ascii_alphanumeric() || c == '-' || c == '_' { c } else { '_' }).collect();
    o.truncate(80);
    o
}

/// Violations of `property` in the outcome (records of type "viol" with that
/// property, plus crashed / hung cases, which are attributed to the property
/// under check because the case was running one of its oracles).
pub fn collect_violations(property: &str, out: &Outcome) -> Vec<Value> {
    let mut v: Vec<Value> = out.records.iter().filter(|r| r["t"] == "viol" && r["prop"] == property).cloned().collect();
    for c in &out.crashes {
        let class = c.description["class"].as_str().unwrap_or("unclassified").to_string();
        v.push(json!({
            "t": "viol", "prop": property, "kind": c.kind,
            "class": format!("{}:{}", c.kind, class),
            "msg": format!("worker {} in case {}: {}", c.kind, c.case, c.detail),
            "witness": c.description,
        }));
    }
    v
}

/// Print verdict lines, write evidence and replay files, return exit code.
pub fn finish(verdict: Verdict, out: &Outcome) -> i32 {
    let vdir = verif_dir();
    let property = verdict.property.clone();
    let viols = collect_violations(&property, out);
    let known = load_known();

    // group by class, keep the first witness (enumeration is simplest-first
    // per shard; pick the smallest serialisation among the first few)
    let mut by_class: BTreeMap<String, Vec<&Value>> = BTreeMap::new();
    for v in &viols {
        by_class.entry(v["class"].as_str().unwrap_or("unclassified").to_string()).or_default().push(v);
    }
    let mut exit = 0;
    let mut n_known = 0usize;
    let mut n_new = 0usize;
    let mut lines = vec![];
    for (class, vs) in &by_class {
        let best = vs.iter().filter(|v| !v["witness"].is_null()).min_by_key(|v| v["witness"].to_string().len()).unwrap_or(&vs[0]);
        if let Some(k) = known.iter().find(|k| k.property == property && &k.class == class) {
            n_known += vs.len();
            lines.push(format!("KNOWN-FINDING: property={} class={} {} (seen {} times; e.g. {})", property, class, k.what, vs.len(), short(&best["msg"])));
        } else {
            n_new += vs.len();
            let dir = vdir.join("replays").join(&property);
            let _ = std::fs::create_dir_all(&dir);
            let path = dir.join(format!("{}.json", slug(class)));
            let body = json!({"property": property, "class": class, "count": vs.len(), "msg": best["msg"], "kind": best["kind"], "witness": best["witness"]});
            let _ = std::fs::write(&path, serde_json::to_string_pretty(&body).unwrap());
            lines.push(format!("VIOLATION property={} replay={}", property, path.display()));
            eprintln!("  class={} count={} msg={}", class, vs.len(), short(&best["msg"]));
            exit = 1;
        }
    }
    // listed findings that were *not* observed are reported for information
    for k in known.iter().filter(|k| k.property == property) {
        if !by_class.contains_key(&k.class) {
            eprintln!("note: listed finding {} / {} was not observed in this run", k.property, k.class);
        }
    }
    if !out.machinery_errors.is_empty() {
        for e in &out.machinery_errors {
            eprintln!("machinery: {}", e);
        }
        if exit == 0 {
            exit = 2;
        }
    }

    let mut coverage = verdict.coverage.clone();
    if let Some(o) = coverage.as_object_mut() {
        o.insert("capped".into(), json!(out.capped));
        o.insert("counters".into(), json!(out.stats));
        o.insert("distinct_sets".into(), json!(out.distinct));
        o.insert("crashed_or_hung_cases".into(), json!(out.crashes.len()));
        o.insert("known_finding_occurrences".into(), json!(n_known));
        o.insert("violation_classes".into(), json!(by_class.keys().collect::<Vec<_>>()));
        if out.capped {
            o.insert("exhaustive".into(), json!(false));
        }
    }
    let ev = json!({
        "property_id": property,
        "tier": tier(),
        "seed": seed(),
        "level": verdict.level,
        "coverage": coverage,
        "assumptions": verdict.assumptions,
        "wall_s": out.wall_s,
        "violations": n_new,
    });
    let edir = vdir.join("evidence");
    let _ = std::fs::create_dir_all(&edir);
    if let Err(e) = std::fs::write(edir.join(format!("{}.json", property)), serde_json::to_string_pretty(&ev).unwrap()) {
        eprintln!("machinery: cannot write evidence: {}", e);
        if exit == 0 {
            exit = 2;
        }
    }
    for l in lines {
        println!("{}", l);
    }
    println!(
        "{} {} tier={} wall={:.1}s violations={} known={} {}",
        if exit == 0 { "OK" } else if exit == 1 { "FAIL" } else { "MACHINERY-ERROR" },
        property,
        tier(),
        out.wall_s,
        n_new,
        n_known,
        summary(&coverage)
    );
    exit
}

fn short(v: &Value) -> String {
    let s = v.as_str().map(|s| s.to_string()).unwrap_or_else(|| v.to_string());
    if s.len() > 300 {
        format!("{}…", &s[..s.char_indices().take_while(|(i, _)| *i < 300).last().map(|(i, c)| i + c.len_utf8()).unwrap_or(0)])
    } else {
        s
    }
}

fn summary(c: &Value) -> String {
    let mut parts = vec![];
    for k in ["states", "transitions", "traces_validated_against_impl", "evaluations", "distinct_nontrivial", "exhaustive"] {
        if !c[k].is_null() {
            parts.push(format!("{}={}", k, c[k]));
        }
    }
    parts.join(" ")
}

/// First `n` records of a given type, as evidence samples.
pub fn samples(out: &Outcome, n: usize) -> Vec<Value> {
    out.records.iter().filter(|r| r["t"] == "sample").take(n).map(|r| r["v"].clone()).collect()
}
