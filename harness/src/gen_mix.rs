//! Interaction family ("mix"): every ordered pair of features from a fixed menu, in every one of a
//! few program shapes.  The other families exhaust the small cases of one feature (and the scale
//! families one size at a time); a defect that needs two features to meet - state that one leaves
//! behind and the other reads - is outside both.  This family is exhaustive over pairs x shapes,
//! with everything else held small.

use crate::gen::Case;
use crate::prog::*;
use crate::refbuiltins::Rel;
use crate::term::*;

fn a() -> T {
    atom("a")
}
fn b() -> T {
    atom("b")
}
fn c() -> T {
    atom("c")
}

/// One feature: a goal over the variable `x` (tag tells which properties it concerns).
pub struct Feature {
    pub name: &'static str,
    pub cut: bool,
    pub not: bool,
    pub out: bool,
    /// may stand under not(...) / time(...) (no cut in its callee, no output)
    pub plain: bool,
    pub goal: fn(&T, usize) -> G,
}

fn support() -> Program {
    vec![
        fact("q", vec![a()]),
        fact("q", vec![b()]),
        fact("q", vec![c()]),
        fact("r", vec![b()]),
        fact("r", vec![c()]),
        fact("pr", vec![a(), T::Int(1)]),
        fact("pr", vec![b(), T::Int(2)]),
        fact("pr", vec![b(), T::Int(3)]),
        // callees
        rule("c1", vec![v("$X")], G::And(vec![call("q", vec![v("$X")]), G::Cut])),
        rule("c2", vec![v("$X")], G::And(vec![call("q", vec![v("$X")]), call("r", vec![v("$X")]), G::Cut])),
        fact("c2", vec![atom("z")]),
        rule("c3", vec![v("$X")], G::And(vec![G::Cut, call("r", vec![v("$X")])])),
        fact("c3", vec![a()]),
        fact("mem", vec![v("$X"), list_t(vec![v("$X")], T::Anon)]),
        rule("mem", vec![v("$X"), list_t(vec![T::Anon], v("$T"))], call("mem", vec![v("$X"), v("$T")])),
        rule("al", vec![v("$X")], G::And(vec![G::Unify(v("$X"), v("$Y")), G::Unify(v("$Y"), v("$W")), call("q", vec![v("$W")])])),
        rule("an", vec![v("$X")], call("pr", vec![v("$X"), T::Anon])),
        rule("dj", vec![v("$X")], G::Or(vec![call("r", vec![v("$X")]), call("q", vec![v("$X")])])),
        rule("nq", vec![v("$X")], G::And(vec![call("q", vec![v("$X")]), G::Not(Box::new(call("r", vec![v("$X")])))])),
        rule("tl", vec![v("$X")], G::And(vec![G::Unify(v("$L"), list_t(vec![a()], v("$T"))), G::Unify(v("$T"), list(vec![b(), c()])), call("mem", vec![v("$X"), v("$L")])])),
    ]
}

pub fn features() -> Vec<Feature> {
    vec![
        Feature { name: "call", cut: false, not: false, out: false, plain: true, goal: |x, _| call("q", vec![x.clone()]) },
        Feature { name: "cut-last", cut: true, not: false, out: false, plain: false, goal: |x, _| call("c1", vec![x.clone()]) },
        Feature { name: "cut-after-two", cut: true, not: false, out: false, plain: false, goal: |x, _| call("c2", vec![x.clone()]) },
        Feature { name: "cut-first", cut: true, not: false, out: false, plain: false, goal: |x, _| call("c3", vec![x.clone()]) },
        Feature { name: "not", cut: false, not: true, out: false, plain: true, goal: |x, _| G::Not(Box::new(call("r", vec![x.clone()]))) },
        Feature { name: "not-in-callee", cut: false, not: true, out: false, plain: true, goal: |x, _| call("nq", vec![x.clone()]) },
        Feature { name: "bind", cut: false, not: false, out: false, plain: true, goal: |x, _| G::Unify(x.clone(), b()) },
        Feature { name: "member", cut: false, not: false, out: false, plain: true, goal: |x, _| call("mem", vec![x.clone(), list(vec![a(), b(), c()])]) },
        Feature { name: "member-bound-tail", cut: false, not: false, out: false, plain: true, goal: |x, _| call("tl", vec![x.clone()]) },
        Feature { name: "or", cut: false, not: false, out: false, plain: true, goal: |x, _| G::Or(vec![G::Unify(x.clone(), a()), G::Unify(x.clone(), c())]) },
        Feature { name: "or-in-callee", cut: false, not: false, out: false, plain: true, goal: |x, _| call("dj", vec![x.clone()]) },
        Feature { name: "alias", cut: false, not: false, out: false, plain: true, goal: |x, _| call("al", vec![x.clone()]) },
        Feature { name: "anon", cut: false, not: false, out: false, plain: true, goal: |x, _| call("an", vec![x.clone()]) },
        Feature { name: "print", cut: false, not: false, out: true, plain: false, goal: |x, _| G::And(vec![call("q", vec![x.clone()]), G::Print(vec![atom("<%s>"), x.clone()])]) },
        Feature { name: "print-then-fail", cut: false, not: false, out: true, plain: false, goal: |x, _| G::And(vec![call("q", vec![x.clone()]), G::Print(vec![x.clone(), atom(".")]), call("r", vec![x.clone()])]) },
        Feature { name: "compare", cut: false, not: false, out: false, plain: true, goal: |x, _| G::And(vec![call("q", vec![x.clone()]), G::Cmp(Rel::Gt, x.clone(), a())]) },
        Feature { name: "append", cut: false, not: false, out: false, plain: true, goal: |x, i| G::And(vec![G::Bip("append".into(), vec![x.clone(), list(vec![b()]), v(&format!("$L{}", i))]), G::Unify(v(&format!("$L{}", i)), list(vec![v(&format!("$E{}", i)), b()])), call("q", vec![v(&format!("$E{}", i))])]) },
        Feature { name: "time", cut: false, not: false, out: true, plain: false, goal: |x, _| G::Time(Box::new(call("q", vec![x.clone()]))) },
    ]
}

/// `which`: "all", "cut", "not", "out" - pairs in which at least one feature carries the tag.
pub fn mix(level: u8, which: &str, f: &mut dyn FnMut(Case)) {
    let fs = features();
    let tagged = |x: &Feature| match which {
        "cut" => x.cut,
        "not" => x.not,
        "out" => x.out,
        _ => true,
    };
    let fam = "mix";
    for fa in &fs {
        for fb in &fs {
            if !(tagged(fa) || tagged(fb)) {
                continue;
            }
            let (x, y) = (v("$X"), v("$Y"));
            let q2 = vec![cplx("t", vec![v("$Z"), v("$W")]), cplx("t", vec![b(), v("$W")]), cplx("t", vec![v("$Z"), c()])];
            let q1 = vec![cplx("t", vec![v("$Z")]), cplx("t", vec![b()]), cplx("t", vec![a()])];
            let mut emit = |rules: Vec<Clause>, queries: Vec<T>| {
                let mut p = support();
                p.extend(rules);
                f(Case { family: fam, prog: p, queries });
            };
            // 1. side by side, two variables
            emit(vec![rule("t", vec![x.clone(), y.clone()], G::And(vec![(fa.goal)(&x, 1), (fb.goal)(&y, 2)]))], q2.clone());
            // 2. one variable through both
            emit(vec![rule("t", vec![x.clone()], G::And(vec![(fa.goal)(&x, 1), (fb.goal)(&x, 2)]))], q1.clone());
            // 3. alternatives (a second clause after them)
            emit(vec![rule("t", vec![x.clone()], G::Or(vec![(fa.goal)(&x, 1), (fb.goal)(&x, 2)])), fact("t", vec![atom("z")])], q1.clone());
            // 4. B reached through a rule of its own, A in the caller before and after it
            emit(vec![rule("u", vec![x.clone()], (fb.goal)(&x, 2)), rule("t", vec![x.clone(), y.clone()], G::And(vec![(fa.goal)(&x, 1), call("u", vec![y.clone()]), (fa.goal)(&y, 3)]))], q2.clone());
            // 5. both inside a recursion over a list
            emit(
                vec![fact("w", vec![list(vec![])]), rule("w", vec![list_t(vec![v("$H")], v("$T"))], G::And(vec![(fa.goal)(&v("$H"), 1), (fb.goal)(&v("$H"), 2), call("w", vec![v("$T")])])), rule("t", vec![x.clone(), y.clone()], call("w", vec![list(vec![x.clone(), y.clone()])]))],
                vec![cplx("t", vec![v("$Z"), v("$W")]), cplx("t", vec![b(), c()])],
            );
            // 6. B under not / time, after A (only goals that may stand there)
            if fb.plain {
                emit(vec![rule("t", vec![x.clone()], G::And(vec![(fa.goal)(&x, 1), G::Not(Box::new((fb.goal)(&x, 2)))]))], q1.clone());
                emit(vec![rule("t", vec![x.clone(), y.clone()], G::And(vec![(fa.goal)(&x, 1), G::Time(Box::new((fb.goal)(&y, 2))), (fa.goal)(&y, 3)]))], q2.clone());
            }
            if level >= 2 {
                // 7. A, then a disjunction of B and A on a second variable, then B again
                emit(vec![rule("t", vec![x.clone(), y.clone()], G::And(vec![(fa.goal)(&x, 1), G::Or(vec![(fb.goal)(&y, 2), (fa.goal)(&y, 3)]), (fb.goal)(&x, 4)]))], q2.clone());
            }
        }
    }
}

/// Constants that print alike but do not unify (2 / 2.0 / the atom `2`), met by one predicate
/// several times in one search: a cache, an index or a comparison keyed on the printed form
/// confuses them.
pub fn lookalikes(_level: u8, f: &mut dyn FnMut(Case)) {
    let l: Vec<T> = vec![T::Int(2), T::Float(2.0), atom("2"), T::Int(3), T::Float(3.5), atom("3.5")];
    let vfacts = |order: &[usize]| -> Program { order.iter().map(|&i| fact("v", vec![l[i].clone()])).collect() };
    let orders: Vec<Vec<usize>> = vec![vec![0, 1, 2, 3, 4, 5], vec![1, 0, 2, 3, 5, 4], vec![2, 1, 0, 3, 4, 5], vec![5, 4, 3, 2, 1, 0]];
    for order in &orders {
        // q holds for one or two of the constants
        for i in 0..l.len() {
            for j in i..l.len() {
                let mut p = vfacts(order);
                p.push(fact("q", vec![l[i].clone()]));
                if j != i {
                    p.push(fact("q", vec![l[j].clone()]));
                }
                p.push(rule("t", vec![v("$X")], G::And(vec![call("v", vec![v("$X")]), call("q", vec![v("$X")])])));
                p.push(rule("n", vec![v("$X")], G::And(vec![call("v", vec![v("$X")]), G::Not(Box::new(call("q", vec![v("$X")])))])));
                p.push(rule("pair", vec![v("$X"), v("$Y")], G::And(vec![call("v", vec![v("$X")]), call("v", vec![v("$Y")]), G::Unify(v("$X"), v("$Y"))])));
                p.push(rule("c", vec![v("$X")], G::And(vec![G::Or(vec![G::Unify(v("$X"), func("divide", vec![T::Float(4.0), T::Int(2)])), G::Unify(v("$X"), func("add", vec![T::Int(1), T::Int(1)])), G::Unify(v("$X"), atom("2"))]), call("q", vec![v("$X")])])));
                f(Case { family: "mix", prog: p, queries: vec![cplx("t", vec![v("$Z")]), cplx("n", vec![v("$Z")]), cplx("pair", vec![v("$Z"), v("$W")]), cplx("c", vec![v("$Z")])] });
            }
        }
    }
}
