//! C10, direct part: every term, goal and rule of the canonical grammar (and
//! every list element sequence of E3) is renamed by the real
//! `recreate_variables` / `get_rule` / `make_query` / `parse_query`, once and
//! twice, and the result is compared with the input:
//!   * with the ids erased it must be *identical* (derived `PartialEq`: atoms,
//!     numbers, list node structure incl. count / tail marker / terminator,
//!     goal tree);
//!   * within one clause: same name <=> same id;
//!   * every id handed out is larger than the counter was before the call, and
//!     two renamings of the same clause share no id.

use crate::e1::panic_text;
use crate::prog::*;
use crate::supervise::Worker;
use crate::term::*;
use serde_json::json;
use std::collections::HashMap;
use std::panic::{catch_unwind, AssertUnwindSafe};
use suiron::{Goal, Operator, Rule, Unifiable};

pub fn strip_term(u: &Unifiable) -> Unifiable {
    match u {
        Unifiable::LogicVar { name, .. } => Unifiable::LogicVar { id: 0, name: name.clone() },
        Unifiable::SComplex(v) => Unifiable::SComplex(v.iter().map(strip_term).collect()),
        Unifiable::SFunction { name, terms } => Unifiable::SFunction { name: name.clone(), terms: terms.iter().map(strip_term).collect() },
        Unifiable::SLinkedList { term, next, count, tail_var } => Unifiable::SLinkedList { term: Box::new(strip_term(term)), next: Box::new(strip_term(next)), count: *count, tail_var: *tail_var },
        o => o.clone(),
    }
}

pub fn strip_goal(g: &Goal) -> Goal {
    match g {
        Goal::ComplexGoal(u) => Goal::ComplexGoal(strip_term(u)),
        Goal::BuiltInGoal(b) => Goal::BuiltInGoal(suiron::BuiltInPredicate { functor: b.functor.clone(), terms: b.terms.as_ref().map(|ts| ts.iter().map(strip_term).collect()) }),
        Goal::OperatorGoal(op) => Goal::OperatorGoal(match op {
            Operator::And(gs) => Operator::And(gs.iter().map(strip_goal).collect()),
            Operator::Or(gs) => Operator::Or(gs.iter().map(strip_goal).collect()),
            Operator::Time(gs) => Operator::Time(gs.iter().map(strip_goal).collect()),
            Operator::Not(gs) => Operator::Not(gs.iter().map(strip_goal).collect()),
        }),
        Goal::Nil => Goal::Nil,
    }
}

fn term_vars(u: &Unifiable, out: &mut Vec<(String, usize)>) {
    match u {
        Unifiable::LogicVar { id, name } => out.push((name.clone(), *id)),
        Unifiable::SComplex(v) => v.iter().for_each(|x| term_vars(x, out)),
        Unifiable::SFunction { terms, .. } => terms.iter().for_each(|x| term_vars(x, out)),
        Unifiable::SLinkedList { term, next, .. } => {
            term_vars(term, out);
            term_vars(next, out)
        }
        _ => {}
    }
}

fn goal_vars(g: &Goal, out: &mut Vec<(String, usize)>) {
    match g {
        Goal::ComplexGoal(u) => term_vars(u, out),
        Goal::BuiltInGoal(b) => {
            if let Some(ts) = &b.terms {
                ts.iter().for_each(|t| term_vars(t, out))
            }
        }
        Goal::OperatorGoal(op) => {
            for i in 0..op.len() {
                goal_vars(&op.get_subgoal(i), out)
            }
        }
        Goal::Nil => {}
    }
}

/// same name <=> same id; every id > floor.  Returns a complaint.
fn check_ids(vars: &[(String, usize)], floor: usize) -> Option<String> {
    let mut by_name: HashMap<&str, usize> = HashMap::new();
    let mut by_id: HashMap<usize, &str> = HashMap::new();
    for (n, i) in vars {
        if *i <= floor {
            return Some(format!("variable {} got id {} although ids up to {} were already handed out", n, i, floor));
        }
        if let Some(j) = by_name.insert(n.as_str(), *i) {
            if j != *i {
                return Some(format!("two occurrences of {} got the ids {} and {}", n, j, i));
            }
        }
        if let Some(m) = by_id.insert(*i, n.as_str()) {
            if m != n {
                return Some(format!("the different variables {} and {} share id {}", m, n, i));
            }
        }
    }
    None
}

struct Ctx<'w> {
    w: &'w mut Worker,
    first: HashMap<String, u32>,
}

impl<'w> Ctx<'w> {
    fn viol(&mut self, kind: &str, what: &str, msg: String, text: String) {
        self.w.count("viol.C10", 1);
        let class = format!("{}:{}", kind, what);
        let n = self.first.entry(class.clone()).or_insert(0);
        *n += 1;
        let wit = if *n <= 2 { json!({"engine":"c10","what":what,"text":text}) } else { serde_json::Value::Null };
        self.w.emit(json!({"t":"viol","prop":"C10","class":class,"kind":kind,"msg":msg,"witness":wit}));
    }

    fn term(&mut self, what: &str, u: &Unifiable, text: &str) {
        // ids already carried by the input (API-built terms, clauses renamed before) are in use:
        // the counter stands above them, as it does in a running search
        let mut own = vec![];
        term_vars(u, &mut own);
        let top = own.iter().map(|x| x.1).max().unwrap_or(0);
        if suiron::get_var_id() < top + 5 {
            suiron::set_var_id(top + 5);
        }
        let floor = suiron::get_var_id();
        let r1 = match catch_unwind(AssertUnwindSafe(|| u.clone().recreate_variables(&mut suiron::VarMap::new()))) {
            Ok(r) => r,
            Err(p) => return self.viol("rename-panic", what, format!("recreate_variables({}) panicked: {}", text, panic_text(p)), text.to_string()),
        };
        self.w.count("renamings", 1);
        if strip_term(&r1) != strip_term(u) {
            self.viol("rename-changes-term", what, format!("renaming {} gives {} — more than the variables changed (structure as built: {} vs {})", text, r1, shape(u), shape(&r1)), text.to_string());
        }
        let mut vs = vec![];
        term_vars(&r1, &mut vs);
        if let Some(c) = check_ids(&vs, floor) {
            self.viol("rename-ids", what, format!("renaming {}: {}", text, c), text.to_string());
        }
        // a second renaming shares no variable with the first
        let floor2 = suiron::get_var_id();
        if let Ok(r2) = catch_unwind(AssertUnwindSafe(|| u.clone().recreate_variables(&mut suiron::VarMap::new()))) {
            self.w.count("renamings", 1);
            let mut v2 = vec![];
            term_vars(&r2, &mut v2);
            if let Some(c) = check_ids(&v2, floor2) {
                self.viol("rename-twice-ids", what, format!("second renaming of {}: {}", text, c), text.to_string());
            }
            if strip_term(&r2) != strip_term(u) {
                self.viol("rename-changes-term", what, format!("second renaming of {} gives {}", text, r2), text.to_string());
            }
            if let Some((n, i)) = v2.iter().find(|(_, i)| vs.iter().any(|(_, j)| j == i)) {
                self.viol("rename-twice-shares", what, format!("two renamings of {} share the variable {}_{}: {} and {}", text, n, i, r1, r2), text.to_string());
            }
        }
        self.w.distinct("outcomes", &(what, vs.len().min(4), matches!(u, Unifiable::SLinkedList { .. })));
    }

    fn rule(&mut self, what: &str, r: &Rule, text: &str, via_kb: bool) {
        let floor = suiron::get_var_id();
        let renamed = if via_kb {
            let mut kb = suiron::KnowledgeBase::new();
            suiron::add_rules(&mut kb, vec![r.clone()]);
            let key = r.key();
            catch_unwind(AssertUnwindSafe(|| suiron::get_rule(&kb, &key, 0)))
        } else {
            catch_unwind(AssertUnwindSafe(|| r.clone().recreate_variables(&mut suiron::VarMap::new())))
        };
        let r1 = match renamed {
            Ok(x) => x,
            Err(p) => return self.viol("rename-panic", what, format!("renaming the rule {} panicked: {}", text, panic_text(p)), text.to_string()),
        };
        self.w.count("renamings", 1);
        if strip_term(&r1.head) != strip_term(&r.head) || strip_goal(&r1.body) != strip_goal(&r.body) {
            self.viol("rename-changes-rule", what, format!("renaming {} gives {} — more than the variables changed", text, r1), text.to_string());
        }
        let mut vs = vec![];
        term_vars(&r1.head, &mut vs);
        goal_vars(&r1.body, &mut vs);
        if let Some(c) = check_ids(&vs, floor) {
            self.viol("rename-ids", what, format!("renaming {}: {}", text, c), text.to_string());
        }
        // a clause that has been renamed before is renamed again like any other
        if !via_kb {
            let floor2 = suiron::get_var_id();
            if let Ok(r2) = catch_unwind(AssertUnwindSafe(|| r1.clone().recreate_variables(&mut suiron::VarMap::new()))) {
                self.w.count("renamings", 1);
                let mut v2 = vec![];
                term_vars(&r2.head, &mut v2);
                goal_vars(&r2.body, &mut v2);
                if let Some(c) = check_ids(&v2, floor2) {
                    self.viol("rename-twice-ids", what, format!("renaming the already renamed {}: {}", r1, c), text.to_string());
                }
                if strip_term(&r2.head) != strip_term(&r.head) || strip_goal(&r2.body) != strip_goal(&r.body) {
                    self.viol("rename-changes-rule", what, format!("renaming {} twice gives {}", text, r2), text.to_string());
                }
            }
        }
        self.w.distinct("outcomes", &(what, vs.len().min(4), via_kb));
    }

    fn query(&mut self, q: &T) {
        let text = q.text();
        let u = to_suiron(q);
        let terms = match &u {
            Unifiable::SComplex(ts) => ts.clone(),
            _ => return,
        };
        for via_text in [false, true] {
            // leave a non-zero counter behind, as an earlier query would
            suiron::set_var_id(17);
            let g = if via_text {
                match catch_unwind(AssertUnwindSafe(|| suiron::parse_query(&text))) {
                    Ok(Ok(g)) => g,
                    Ok(Err(_)) => continue, // C19 owns acceptance
                    Err(p) => {
                        self.viol("query-panic", "parse_query", format!("parse_query({}) panicked: {}", text, panic_text(p)), text.clone());
                        continue;
                    }
                }
            } else {
                match catch_unwind(AssertUnwindSafe(|| suiron::make_query(terms.clone()))) {
                    Ok(g) => g,
                    Err(p) => {
                        self.viol("query-panic", "make_query", format!("make_query({}) panicked: {}", text, panic_text(p)), text.clone());
                        continue;
                    }
                }
            };
            self.w.count("renamings", 1);
            let what = if via_text { "parse_query" } else { "make_query" };
            if let Goal::ComplexGoal(c) = &g {
                if strip_term(c) != strip_term(&u) {
                    self.viol("rename-changes-term", what, format!("{}({}) gives {} — more than the variables changed", what, text, c), text.clone());
                }
                let mut vs = vec![];
                term_vars(c, &mut vs);
                if let Some(cmpl) = check_ids(&vs, 0) {
                    self.viol("rename-ids", what, format!("{}({}): {}", what, text, cmpl), text.clone());
                }
                // the counter now stands at the largest id handed out, so that the first rule fetched is fresh
                let maxid = vs.iter().map(|x| x.1).max().unwrap_or(0);
                if suiron::get_var_id() < maxid {
                    self.viol("query-counter", what, format!("after {}({}) the id counter is {} but the query uses id {}", what, text, suiron::get_var_id(), maxid), text.clone());
                }
            } else {
                self.viol("rename-changes-term", what, format!("{}({}) is not a complex goal", what, text), text.clone());
            }
        }
    }
}

pub fn worker(tier: &str) {
    let mut w = Worker::from_env();
    let thorough = tier == "thorough";
    let mut cx = Ctx { w: &mut w, first: HashMap::new() };
    let mut idx = 0u64;
    suiron::start_query();

    // terms of the grammar
    let terms = crate::e4::grammar_terms(if thorough { 3 } else { 2 }, true);
    // plus every element sequence of E3 as a list, with and without tail variable
    let kinds = vec![atom("a"), T::Int(1), var(1, "$X"), var(2, "$Y"), T::Anon, list(vec![]), list(vec![atom("b"), var(1, "$X")]), cplx("f", vec![var(2, "$Y")]), T::Float(1.5)];
    let mut seqs: Vec<Vec<T>> = vec![vec![]];
    let mut frontier: Vec<Vec<T>> = vec![vec![]];
    for _ in 0..(if thorough { 5 } else { 4 }) {
        let mut next = vec![];
        for s in &frontier {
            for k in &kinds {
                let mut s2 = s.clone();
                s2.push(k.clone());
                next.push(s2);
            }
        }
        seqs.extend(next.iter().cloned());
        frontier = next;
    }
    let mut all_terms: Vec<T> = terms.clone();
    for s in &seqs {
        all_terms.push(list(s.clone()));
        if !s.is_empty() {
            all_terms.push(list_t(s.clone(), var(3, "$T")));
            all_terms.push(cplx("f", vec![list(s.clone()), var(1, "$X")]));
        }
    }
    // scale: k distinct variables, each occurring twice; long variable names with a long common prefix;
    // long lists and deep terms
    let mut bsizes: Vec<usize> = vec![4, 5, 7, 8, 9, 15, 16, 17, 20, 21, 31, 32, 33, 63, 64, 65];
    if thorough {
        bsizes.extend([127, 128, 129, 255, 256, 257]);
    }
    for &k in &bsizes {
        let vars: Vec<T> = (1..=k).map(|i| var(0, &format!("$V{}", i))).collect();
        let mut twice = vars.clone();
        twice.extend(vars.clone());
        all_terms.push(cplx("k", twice.clone()));
        all_terms.push(list_t(twice, var(0, "$Tail")));
        all_terms.push((0..k).fold(var(0, "$X"), |t, i| cplx("f", vec![t, var(0, &format!("$D{}", i % 3))])));
        let stem = "T".repeat(k);
        let (n1, n2) = (var(0, &format!("${}es", stem)), var(0, &format!("${}Rate", stem)));
        all_terms.push(cplx("swap", vec![n1.clone(), n2.clone(), n2.clone(), n1.clone()]));
        all_terms.push(list(vec![n1.clone(), n2.clone(), var(0, &format!("${}", stem))]));
    }
    for t in &all_terms {
        let my = idx;
        idx += 1;
        if !cx.w.mine(my) {
            continue;
        }
        if cx.w.describe.is_some() {
            cx.w.emit(json!({"t":"describe","class":"rename-term","witness":{"engine":"c10","what":"term","text":t.text_ids()}}));
            return;
        }
        cx.w.begin(my);
        cx.w.count("terms", 1);
        let u = to_suiron(t);
        cx.term("term", &u, &t.text_ids());
        // the same term as it comes out of the parser
        if let Ok(Ok(p)) = catch_unwind(AssertUnwindSafe(|| suiron::parse_term(&t.text()))) {
            cx.term("parsed-term", &p, &t.text());
        }
        if let T::Cplx(..) = t {
            cx.query(t);
        }
    }
    // goals and rules
    let rules = crate::e4::grammar_rules(if thorough { 2 } else { 1 });
    for c in &rules {
        let my = idx;
        idx += 1;
        if !cx.w.mine(my) {
            continue;
        }
        if cx.w.describe.is_some() {
            cx.w.emit(json!({"t":"describe","class":"rename-rule","witness":{"engine":"c10","what":"rule","text":c.text()}}));
            return;
        }
        cx.w.begin(my);
        cx.w.count("rules", 1);
        let r = match catch_unwind(AssertUnwindSafe(|| to_rule(c))) {
            Ok(r) => r,
            Err(_) => continue,
        };
        cx.rule("rule", &r, &c.text(), false);
        cx.rule("get_rule", &r, &c.text(), true);
        if let Ok(Ok(pr)) = catch_unwind(AssertUnwindSafe(|| suiron::parse_rule(&c.text()))) {
            cx.rule("parsed-rule", &pr, &c.text(), true);
        }
        if let T::Cplx(..) = &c.head {
            cx.query(&c.head);
        }
    }
    w.done();
}

pub fn replay(wit: &serde_json::Value) -> bool {
    let text = wit["text"].as_str().unwrap_or("");
    println!("renaming {} ({})", text, wit["what"].as_str().unwrap_or(""));
    let mut clean = true;
    for round in 0..2 {
        suiron::start_query();
        let parsed = if wit["what"].as_str().unwrap_or("").contains("rule") { None } else { catch_unwind(AssertUnwindSafe(|| suiron::parse_term(text))).ok().and_then(|r| r.ok()) };
        match parsed {
            Some(u) => {
                let r = u.clone().recreate_variables(&mut suiron::VarMap::new());
                let same = strip_term(&r) == strip_term(&u);
                eprintln!("run {}: {}  ->  {}   structure {} -> {}   identical up to ids: {}", round, u, r, shape(&u), shape(&r), same);
                clean &= same;
            }
            None => match catch_unwind(AssertUnwindSafe(|| suiron::parse_rule(text))) {
                Ok(Ok(rule)) => {
                    let r = rule.clone().recreate_variables(&mut suiron::VarMap::new());
                    let same = strip_term(&r.head) == strip_term(&rule.head) && strip_goal(&r.body) == strip_goal(&rule.body);
                    eprintln!("run {}: {}  ->  {}   identical up to ids: {}", round, rule, r, same);
                    clean &= same;
                }
                _ => eprintln!("run {}: the witness text does not parse on its own; re-run ./check C10", round),
            },
        }
    }
    if clean {
        eprintln!("VERDICT: no violation reproduced from the text alone (API-built witnesses: re-run ./check C10)");
    }
    clean
}
