//! Driving the E5 explorer (`harness_e5`, binary `vh5`): the real suiron code
//! and the real `thread_timer` source under a preemption- and deviation-bounded
//! depth-first scheduler with a virtual clock.  This module only plans the
//! runs, shards the big ones by schedule prefix, and folds the records into an
//! `Outcome`; the exploration itself is in /verif/harness_e5.

use crate::supervise::Outcome;
use serde_json::Value;
use std::collections::BTreeMap;
use std::io::Read;
use std::process::{Command, Stdio};
use std::time::{Duration, Instant};

pub struct Plan {
    pub scenario: &'static str,
    pub pre: usize,
    pub dev: usize,
    /// 0 = one process; otherwise the length of the schedule prefixes to shard by
    pub shard_prefix: usize,
}

pub fn plans(prop: &str, tier: &str) -> Vec<Plan> {
    let t = tier == "thorough";
    let pl = |scenario, pre, dev, shard_prefix| Plan { scenario, pre, dev, shard_prefix };
    match (prop, t) {
        // quick: bounds sized so that every scenario ends within seconds (they run in parallel)
        ("C23", false) => vec![pl("S1", 4, 1, 0), pl("S2", 4, 1, 0), pl("S3", 3, 2, 0), pl("S3b", 3, 2, 0), pl("S4", 2, 1, 0), pl("S6", 1, 0, 0), pl("S7", 1, 1, 0), pl("S11", 4, 2, 0), pl("S12", 4, 2, 0), pl("S14", 3, 2, 0), pl("S15", 1, 1, 0)],
        ("C23", true) => vec![pl("S1", 10, 1, 0), pl("S2", 8, 1, 20), pl("S3", 5, 2, 30), pl("S3b", 5, 3, 30), pl("S4", 3, 1, 40), pl("S6", 2, 0, 60), pl("S7", 2, 1, 60), pl("S11", 6, 2, 30), pl("S12", 6, 2, 30), pl("S14", 5, 2, 30), pl("S15", 2, 1, 40)],
        ("C22", false) => vec![pl("S4", 3, 1, 40), pl("S5", 3, 2, 0), pl("S5b", 3, 2, 0), pl("S8", 3, 1, 0), pl("S9", 3, 1, 0), pl("S10", 4, 1, 0), pl("S13", 2, 2, 0), pl("S13b", 3, 2, 0), pl("S16", 3, 2, 0), pl("S16b", 3, 2, 0)],
        ("C22", true) => vec![pl("S4", 4, 1, 50), pl("S5", 5, 2, 30), pl("S5b", 5, 2, 30), pl("S8", 4, 1, 40), pl("S9", 4, 1, 40), pl("S10", 7, 1, 30), pl("S13", 3, 2, 40), pl("S13b", 5, 2, 30), pl("S16", 5, 2, 30), pl("S16b", 5, 2, 30)],
        _ => vec![],
    }
}

fn vh5() -> std::path::PathBuf {
    crate::report::verif_dir().join("harness_e5/target/release/vh5")
}

struct Job {
    args: Vec<String>,
    scenario: String,
}

/// Run the plans with at most `jobs` processes at a time.
pub fn run(prop: &str, tier: &str, jobs: usize, wall_cap: Duration) -> Outcome {
    let start = Instant::now();
    let mut out = Outcome { records: vec![], stats: BTreeMap::new(), crashes: vec![], capped: false, wall_s: 0.0, machinery_errors: vec![], distinct: BTreeMap::new() };
    let exe = vh5();
    if !exe.exists() {
        out.machinery_errors.push(format!("{} not built", exe.display()));
        return out;
    }
    let scratch = crate::supervise::scratch_dir();
    let mut queue: Vec<Job> = vec![];
    for p in plans(prop, tier) {
        let base = vec![p.scenario.to_string(), p.pre.to_string(), p.dev.to_string()];
        if p.shard_prefix == 0 {
            queue.push(Job { args: base, scenario: p.scenario.to_string() });
        } else {
            // phase 1: the distinct schedule prefixes of the given length
            let mut a = base.clone();
            a.extend(["--list-prefixes".to_string(), p.shard_prefix.to_string()]);
            match Command::new(&exe).args(&a).output() {
                Ok(o) if o.status.success() => {
                    let f = scratch.join(format!("prefixes-{}", p.scenario));
                    let _ = std::fs::write(&f, &o.stdout);
                    let n = String::from_utf8_lossy(&o.stdout).lines().count();
                    *out.stats.entry(format!("e5.{}.prefix_shards", p.scenario)).or_insert(0) += n as u64;
                    let nsh = jobs.min(n.max(1));
                    for i in 0..nsh {
                        let mut b = base.clone();
                        b.extend(["--prefixes".to_string(), f.to_string_lossy().into_owned(), "--shard".to_string(), i.to_string(), "--nshards".to_string(), nsh.to_string()]);
                        queue.push(Job { args: b, scenario: p.scenario.to_string() });
                    }
                }
                Ok(o) => out.machinery_errors.push(format!("vh5 --list-prefixes {} failed: {}", p.scenario, o.status)),
                Err(e) => out.machinery_errors.push(format!("cannot run vh5: {}", e)),
            }
        }
    }
    queue.reverse();
    let mut running: Vec<(std::process::Child, String)> = vec![];
    let mut outcomes: BTreeMap<String, std::collections::BTreeMap<String, u64>> = BTreeMap::new();
    let mut maxes: BTreeMap<String, u64> = BTreeMap::new();
    loop {
        while running.len() < jobs {
            match queue.pop() {
                Some(j) => match Command::new(&exe).args(&j.args).stdin(Stdio::null()).stdout(Stdio::piped()).stderr(Stdio::null()).spawn() {
                    Ok(mut c) => {
                        // drain stdout on a thread so that a big run cannot block on the pipe
                        let mut so = c.stdout.take().unwrap();
                        let (tx, rx) = std::sync::mpsc::channel::<String>();
                        std::thread::spawn(move || {
                            let mut s = String::new();
                            let _ = so.read_to_string(&mut s);
                            let _ = tx.send(s);
                        });
                        CHANNELS.with(|m| m.borrow_mut().insert(c.id(), rx));
                        running.push((c, j.scenario));
                    }
                    Err(e) => out.machinery_errors.push(format!("cannot spawn vh5: {}", e)),
                },
                None => break,
            }
        }
        if running.is_empty() {
            break;
        }
        let mut i = 0;
        while i < running.len() {
            match running[i].0.try_wait() {
                Ok(Some(status)) => {
                    let (c, scen) = running.remove(i);
                    let text = CHANNELS.with(|m| m.borrow_mut().remove(&c.id())).and_then(|rx| rx.recv_timeout(Duration::from_secs(10)).ok()).unwrap_or_default();
                    let mut done = false;
                    for l in text.lines() {
                        match serde_json::from_str::<Value>(l) {
                            Ok(v) => match v["t"].as_str() {
                                Some("stats") => {
                                    if let Some(o) = v["c"].as_object() {
                                        for (k, n) in o {
                                            *out.stats.entry(k.clone()).or_insert(0) += n.as_u64().unwrap_or(0);
                                        }
                                    }
                                }
                                Some("done") => done = true,
                                Some("outcome") => {
                                    *outcomes.entry(scen.clone()).or_default().entry(v["outcome"].as_str().unwrap_or("").to_string()).or_insert(0) += v["schedules"].as_u64().unwrap_or(0);
                                }
                                Some("max") => {
                                    let e = maxes.entry(v["k"].as_str().unwrap_or("").to_string()).or_insert(0);
                                    *e = (*e).max(v["v"].as_u64().unwrap_or(0));
                                }
                                _ => out.records.push(v),
                            },
                            Err(_) => out.machinery_errors.push(format!("unparsable vh5 line: {}", l)),
                        }
                    }
                    if !status.success() || !done {
                        out.machinery_errors.push(format!("vh5 {} exited with {} (done record: {})", scen, status, done));
                    }
                }
                Ok(None) => i += 1,
                Err(e) => {
                    out.machinery_errors.push(format!("wait: {}", e));
                    running.remove(i);
                }
            }
        }
        if start.elapsed() > wall_cap {
            out.capped = true;
            for (c, _) in running.iter_mut() {
                let _ = c.kill();
                let _ = c.wait();
            }
            break;
        }
        std::thread::sleep(Duration::from_millis(10));
    }
    for (k, v) in maxes {
        out.stats.insert(k, v);
    }
    let mut total_outcomes = 0u64;
    for (scen, m) in &outcomes {
        out.stats.insert(format!("e5.{}.distinct_outcomes", scen), m.len() as u64);
        total_outcomes += m.len() as u64;
        for (o, n) in m.iter().take(8) {
            out.records.push(serde_json::json!({"t":"sample","v":{"scenario":scen,"outcome":o,"schedules":n}}));
        }
    }
    out.distinct.insert("e5_outcomes".into(), total_outcomes);
    let incomplete: u64 = out.stats.iter().filter(|(k, _)| k.ends_with(".incomplete")).map(|(_, v)| *v).sum();
    if incomplete > 0 {
        out.capped = true;
    }
    OUTCOMES.with(|o| *o.borrow_mut() = outcomes);
    let _ = std::fs::remove_dir_all(&scratch);
    out.wall_s = start.elapsed().as_secs_f64();
    out
}

thread_local! {
    static CHANNELS: std::cell::RefCell<std::collections::HashMap<u32, std::sync::mpsc::Receiver<String>>> = std::cell::RefCell::new(std::collections::HashMap::new());
    /// outcome sets of the last run, per scenario (for the real-time conformance runs)
    pub static OUTCOMES: std::cell::RefCell<BTreeMap<String, BTreeMap<String, u64>>> = std::cell::RefCell::new(BTreeMap::new());
}

pub fn replay(wit: &Value) -> bool {
    let exe = vh5();
    let scen = wit["scenario"].as_str().unwrap_or("");
    let choices = wit["choices"].as_str().unwrap_or("");
    println!("scenario {} schedule {}", scen, choices);
    let mut results = vec![];
    for round in 0..2 {
        match Command::new(&exe).args(["replay", scen, choices]).output() {
            Ok(o) => {
                let t = String::from_utf8_lossy(&o.stdout).into_owned();
                for l in t.lines() {
                    eprintln!("run {}: {}", round, l);
                }
                results.push((o.status.code(), t));
            }
            Err(e) => {
                eprintln!("cannot run vh5: {}", e);
                return true;
            }
        }
    }
    if results[0] != results[1] {
        eprintln!("NON-DETERMINISTIC: the two replays differ");
    }
    results[0].0 == Some(0)
}
