#!/bin/bash
# Generates shim/thread_timer/src/lib.rs from the registry copy of thread_timer
# 0.3.0: ONLY the four `use std::...` lines are rewritten, so the timer under
# test is the real source. Fails loudly if the registry source is not the
# pinned one or if a committed shim differs from what would be generated.
set -e
cd "$(dirname "$0")"
SRC=$(ls -d ~/.cargo/registry/src/*/thread_timer-0.3.0/src/lib.rs | head -1)
WANT=8f4cc2bc1b6c8ac5ea7bd9b5ea9c8b3a1b8f64bd0e3dbb5b6ff5d1c6a3c0f0e1
GOT=$(sha256sum "$SRC" | cut -d' ' -f1)
PIN=$(cat thread_timer.sha256 2>/dev/null || true)
if [ -n "$PIN" ] && [ "$PIN" != "$GOT" ]; then
  echo "gen_shim: registry thread_timer source hash $GOT differs from pinned $PIN" >&2; exit 2
fi
[ -z "$PIN" ] && echo "$GOT" > thread_timer.sha256
OUT=shim/thread_timer/src/lib.rs
TMP=$(mktemp)
sed -e 's/^use std::sync::mpsc::{self, Sender};$/use verif_sync::mpsc::{self, Sender};/' \
    -e 's/^use std::sync::{Arc, Condvar, Mutex, TryLockError};$/use verif_sync::{Arc, Condvar, Mutex, TryLockError};/' \
    -e 's/^use std::thread;$/use verif_sync::thread;/' "$SRC" > "$TMP"
N=$(diff "$SRC" "$TMP" | grep -c '^>' || true)
if [ "$N" != "3" ]; then echo "gen_shim: expected exactly 3 rewritten lines, got $N" >&2; exit 2; fi
if [ -f "$OUT" ] && ! cmp -s "$TMP" "$OUT"; then
  echo "gen_shim: committed shim differs from the generated one" >&2; exit 2
fi
mv "$TMP" "$OUT"
echo "gen_shim: ok ($N lines rewritten, source sha256 $GOT)"
