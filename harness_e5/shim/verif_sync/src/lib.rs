//! The synchronisation primitives `thread_timer` uses, re-targeted onto
//! shuttle's controlled scheduler, plus the one thing shuttle lacks: a timed
//! condition wait that can time out, driven by a harness-owned virtual clock.
//!
//! `Mutex` and `Condvar` hold their shuttle counterparts in `Arc`s so that the
//! one-shot *clock task* of a timed wait can lock the very mutex the waiter
//! holds (which rules out a lost wake-up: a deadlock report is a real one).

pub use shuttle::sync::mpsc;
pub use shuttle::thread;
pub use std::sync::Arc;

use std::ops::{Deref, DerefMut};
use std::sync::atomic::{AtomicBool, Ordering};
use std::sync::LockResult;
use std::time::Duration;

pub struct Mutex<T> {
    inner: Arc<shuttle::sync::Mutex<T>>,
}

pub struct MutexGuard<'a, T> {
    g: Option<shuttle::sync::MutexGuard<'a, T>>,
    m: Arc<shuttle::sync::Mutex<T>>,
}

#[derive(Debug)]
pub enum TryLockError<G> {
    Poisoned(G),
    WouldBlock,
}

impl<T> Mutex<T> {
    pub fn new(t: T) -> Self {
        Mutex { inner: Arc::new(shuttle::sync::Mutex::new(t)) }
    }
    pub fn lock(&self) -> LockResult<MutexGuard<'_, T>> {
        let g = self.inner.lock().unwrap_or_else(|e| e.into_inner());
        Ok(MutexGuard { g: Some(g), m: self.inner.clone() })
    }
    pub fn try_lock(&self) -> Result<MutexGuard<'_, T>, TryLockError<MutexGuard<'_, T>>> {
        match self.inner.try_lock() {
            Ok(g) => Ok(MutexGuard { g: Some(g), m: self.inner.clone() }),
            Err(std::sync::TryLockError::WouldBlock) => Err(TryLockError::WouldBlock),
            Err(std::sync::TryLockError::Poisoned(e)) => Ok(MutexGuard { g: Some(e.into_inner()), m: self.inner.clone() }),
        }
    }
}

impl<'a, T> Deref for MutexGuard<'a, T> {
    type Target = T;
    fn deref(&self) -> &T {
        self.g.as_ref().unwrap()
    }
}
impl<'a, T> DerefMut for MutexGuard<'a, T> {
    fn deref_mut(&mut self) -> &mut T {
        self.g.as_mut().unwrap()
    }
}

pub struct WaitTimeoutResult(bool);
impl WaitTimeoutResult {
    pub fn timed_out(&self) -> bool {
        self.0
    }
}

pub struct Condvar {
    inner: Arc<shuttle::sync::Condvar>,
}

impl Default for Condvar {
    fn default() -> Self {
        Self::new()
    }
}

impl Condvar {
    pub fn new() -> Self {
        Condvar { inner: Arc::new(shuttle::sync::Condvar::new()) }
    }
    pub fn notify_one(&self) {
        self.inner.notify_one()
    }
    pub fn notify_all(&self) {
        self.inner.notify_all()
    }

    fn wait_inner<'a, T>(&self, mut guard: MutexGuard<'a, T>) -> MutexGuard<'a, T> {
        let g = guard.g.take().unwrap();
        let g = self.inner.wait(g).unwrap_or_else(|e| e.into_inner());
        guard.g = Some(g);
        guard
    }

    pub fn wait_while<'a, T, F>(&self, mut guard: MutexGuard<'a, T>, mut condition: F) -> LockResult<MutexGuard<'a, T>>
    where
        F: FnMut(&mut T) -> bool,
    {
        while condition(&mut *guard) {
            guard = self.wait_inner(guard);
        }
        Ok(guard)
    }

    /// Timed wait on the virtual clock.  The wait is registered with the clock;
    /// whoever moves the clock past the deadline takes the same mutex, marks
    /// the wait as elapsed and notifies (taking the mutex rules out a lost
    /// wake-up, so a deadlock report is a real one).
    pub fn wait_timeout_while<'a, T, F>(&self, mut guard: MutexGuard<'a, T>, dur: Duration, mut condition: F) -> LockResult<(MutexGuard<'a, T>, WaitTimeoutResult)>
    where
        T: Send + 'static,
        F: FnMut(&mut T) -> bool,
    {
        // The harness ends every execution by moving the clock to the end of time, so that every
        // armed timer expires and every task terminates.  A timed wait that only starts after that
        // (a timer thread that was never scheduled before) has nobody left to wake it: it elapses at once.
        if clock::now_unlocked() == u64::MAX {
            let timed_out = condition(&mut *guard);
            return Ok((guard, WaitTimeoutResult(timed_out)));
        }
        let deadline = clock::now_unlocked().saturating_add(dur.as_millis() as u64);
        let elapsed = Arc::new(AtomicBool::new(false));
        let active = Arc::new(AtomicBool::new(true));
        {
            let m = guard.m.clone();
            let cv = self.inner.clone();
            let el = elapsed.clone();
            clock::register(clock::Sleeper {
                deadline,
                active: active.clone(),
                fire: Box::new(move || {
                    let _g = m.lock().unwrap_or_else(|e| e.into_inner());
                    el.store(true, Ordering::SeqCst);
                    cv.notify_all();
                }),
            });
        }
        let timed_out = loop {
            if !condition(&mut *guard) {
                break false;
            }
            if elapsed.load(Ordering::SeqCst) {
                break true;
            }
            guard = self.wait_inner(guard);
        };
        active.store(false, Ordering::SeqCst);
        Ok((guard, WaitTimeoutResult(timed_out)))
    }
}

/// The virtual clock (milliseconds).  A plain value owned by the harness:
/// it only changes when the harness says so (`advance_*`), and the task that
/// advances it fires the timed waits whose deadline has been reached.
pub mod clock {
    use std::sync::atomic::{AtomicBool, Ordering};
    use std::sync::Arc;

    pub struct Sleeper {
        pub deadline: u64,
        pub active: Arc<AtomicBool>,
        pub fire: Box<dyn Fn() + Send + Sync>,
    }

    struct State {
        now: u64,
        sleepers: Vec<Arc<Sleeper>>,
        armed: Vec<u64>,
    }

    static CUR: std::sync::Mutex<State> = std::sync::Mutex::new(State { now: 0, sleepers: Vec::new(), armed: Vec::new() });

    /// Call at the start of every execution (inside the shuttle closure).
    pub fn init() {
        let mut s = CUR.lock().unwrap();
        s.now = 0;
        s.sleepers.clear();
        s.armed.clear();
    }

    pub fn now() -> u64 {
        CUR.lock().unwrap().now
    }
    pub(crate) fn now_unlocked() -> u64 {
        now()
    }

    /// Deadlines of the timed waits started so far in this execution.
    pub fn armed_deadlines() -> Vec<u64> {
        CUR.lock().unwrap().armed.clone()
    }

    pub(crate) fn register(sl: Sleeper) {
        let mut s = CUR.lock().unwrap();
        s.armed.push(sl.deadline);
        s.sleepers.push(Arc::new(sl));
    }

    /// Move the clock forward (never backward) and fire the waits that are due.
    /// Must not be called while holding a lock a timed waiter uses.
    pub fn advance_to(t: u64) {
        let due: Vec<Arc<Sleeper>> = {
            let mut s = CUR.lock().unwrap();
            if t > s.now {
                s.now = t;
            }
            let now = s.now;
            let (due, keep): (Vec<_>, Vec<_>) = s.sleepers.drain(..).partition(|sl| sl.deadline <= now);
            s.sleepers = keep;
            due
        };
        // the std mutex is released: firing takes shuttle locks and may switch tasks
        for sl in due {
            if sl.active.load(Ordering::SeqCst) {
                (sl.fire)();
            }
        }
    }
    pub fn advance_by(ms: u64) {
        let n = now();
        advance_to(n.saturating_add(ms));
    }
}
