//! A simple, cancelable timer implementation with no external dependencies.

#![deny(missing_docs)]

use verif_sync::mpsc::{self, Sender};
use verif_sync::{Arc, Condvar, Mutex, TryLockError};
use verif_sync::thread;
use std::time::Duration;

/// Errors that may be thrown by ThreadTimer::start()
#[derive(Debug, Eq, PartialEq)]
pub enum TimerStartError {
  /// The timer is already waiting to execute some other thunk
  AlreadyWaiting,
}

/// Errors that may be thrown by ThreadTimer::cancel()
#[derive(Debug, Eq, PartialEq)]
pub enum TimerCancelError {
  /// The timer is not currently waiting, so there is nothing to cancel
  NotWaiting,
}

/// Message sent to tell the timer thread to start waiting
struct StartWaitMessage {
  dur: Duration,
  f: Box<dyn FnOnce() + Send + 'static>,
}

/// A simple, cancelable timer that can run a thunk after waiting for an
/// arbitrary duration.
///
/// Waiting is accomplished by using a helper thread (the "wait thread") that
/// listens for incoming wait requests and then executes the requested thunk
/// after blocking for the requested duration. Because each ThreadTimer keeps
/// only one wait thread, each ThreadTimer may only be waiting for a single
/// thunk at a time.
///
/// ```
/// use std::sync::mpsc::{self, TryRecvError};
/// use std::thread;
/// use std::time::Duration;
/// use thread_timer::ThreadTimer;
///
/// let (sender, receiver) = mpsc::channel::<bool>();
/// let timer = ThreadTimer::new();
///
/// timer.start(Duration::from_millis(50), move || { sender.send(true).unwrap() }).unwrap();
///
/// thread::sleep(Duration::from_millis(60));
/// assert_eq!(receiver.try_recv(), Ok(true));
/// ```
///
/// If a ThreadTimer is currently waiting to execute a thunk, the wait can be
/// canceled, in which case the thunk will not be run.
///
/// ```
/// use std::sync::mpsc::{self, TryRecvError};
/// use std::thread;
/// use std::time::Duration;
/// use thread_timer::ThreadTimer;
///
/// let (sender, receiver) = mpsc::channel::<bool>();
/// let timer = ThreadTimer::new();
///
/// timer.start(Duration::from_millis(50), move || { sender.send(true).unwrap() }).unwrap();
///
/// thread::sleep(Duration::from_millis(10));
/// timer.cancel().unwrap();
///
/// thread::sleep(Duration::from_millis(60));
/// assert_eq!(receiver.try_recv(), Err(TryRecvError::Disconnected));
/// ```
#[derive(Clone)]
pub struct ThreadTimer {
  // Allow only one operation at a time so that we don't need to worry about interleaving
  op_lock: Arc<Mutex<()>>,
  // Used to track whether or not the timer is currently waiting
  is_waiting: Arc<(Mutex<bool>, Condvar)>,
  // Used to wait for a cancelation signal and avoid spurious wakeups while waiting
  is_canceled: Arc<(Mutex<bool>, Condvar)>,
  // Used to tell the timer thread to start waiting
  sender: Sender<StartWaitMessage>,
}

impl ThreadTimer {
  /// Creates and returns a new ThreadTimer. Spawns a new thread to do the
  /// waiting (the "wait thread").
  ///
  /// ```
  /// use thread_timer::ThreadTimer;
  /// let timer = ThreadTimer::new();
  /// ```
  pub fn new() -> Self {
    let (sender, receiver) = mpsc::channel::<StartWaitMessage>();
    let is_waiting = Arc::new((Mutex::new(false), Condvar::new()));
    let thread_is_waiting = is_waiting.clone();
    let is_canceled = Arc::new((Mutex::new(false), Condvar::new()));
    let thread_is_canceled = is_canceled.clone();

    thread::spawn(move || {
      // Loop waiting for a new message from the client thread(s).  If all
      // senders have disconnected, we will never receive a new message so
      // we should break out of the loop.
      while let Ok(msg) = receiver.recv() {
        let (cancel_lock, cancel_condvar) = &*thread_is_canceled;
        let (mut cancel_guard, cancel_res) = cancel_condvar
          .wait_timeout_while(
            cancel_lock.lock().unwrap(),
            msg.dur,
            |&mut is_canceled| !is_canceled,
          )
          .unwrap();
        if cancel_res.timed_out() {
          // Only run the thunk if the wait completed (i.e. it was not canceled)
          (msg.f)();
        }
        // Always clear the cancel guard (even if the wait completed and we
        // executed the thunk)
        *cancel_guard = false;
        let (is_waiting_lock, is_waiting_condvar) = &*thread_is_waiting;
        *is_waiting_lock.lock().unwrap() = false;
        is_waiting_condvar.notify_one();
      }
    });

    ThreadTimer {
      op_lock: Arc::new(Mutex::new(())),
      is_waiting,
      is_canceled,
      sender,
    }
  }

  /// Start waiting. Wait for `dur` to elapse then execute `f`. Will not
  /// execute `f` if the timer is canceled before `dur` elapses.
  /// Returns [TimerStartError](enum.TimerStartError.html)::AlreadyWaiting if
  /// the timer is already waiting to execute a thunk.
  /// ```
  /// use std::sync::mpsc::{self, TryRecvError};
  /// use std::thread;
  /// use std::time::Duration;
  /// use thread_timer::ThreadTimer;
  ///
  /// let (sender, receiver) = mpsc::channel::<bool>();
  /// let timer = ThreadTimer::new();
  ///
  /// timer.start(Duration::from_millis(50), move || { sender.send(true).unwrap() }).unwrap();
  /// assert_eq!(
  ///   receiver.try_recv(),
  ///   Err(TryRecvError::Empty),
  ///   "Received response before wait elapsed!",
  /// );
  ///
  /// thread::sleep(Duration::from_millis(60));
  /// assert_eq!(
  ///   receiver.try_recv(),
  ///   Ok(true),
  ///   "Did not receive response after wait elapsed!",
  /// );
  /// ```
  pub fn start<F>(&self, dur: Duration, f: F) -> Result<(), TimerStartError>
  where
    F: FnOnce() + Send + 'static,
  {
    let _guard = self.op_lock.lock().unwrap();
    let (is_waiting_lock, _) = &*self.is_waiting;
    let mut is_waiting = is_waiting_lock.lock().unwrap();
    if *is_waiting {
      return Err(TimerStartError::AlreadyWaiting);
    }
    *is_waiting = true;
    let msg = StartWaitMessage {
      dur,
      f: Box::new(f),
    };
    self.sender.send(msg).unwrap();
    Ok(())
  }

  /// Cancel the current timer (the thunk will not be executed and the timer
  /// will be able to start waiting to execute another thunk). This function
  /// waits until the wait thread has confirmed that it is ready to start
  /// waiting again, so it is safe to call start immediately after calling this
  /// function.
  /// Returns [TimerCancelError](enum.TimerCancelError.html)::NotWaiting if
  /// the timer is not currently waiting.
  /// ```
  /// use std::sync::mpsc::{self, TryRecvError};
  /// use std::thread;
  /// use std::time::Duration;
  /// use thread_timer::ThreadTimer;
  ///
  /// let (sender, receiver) = mpsc::channel::<bool>();
  /// let timer = ThreadTimer::new();
  ///
  /// timer.start(Duration::from_millis(50), move || { sender.send(true).unwrap() }).unwrap();
  ///
  /// // Make sure the wait has actually started before we cancel
  /// thread::sleep(Duration::from_millis(10));
  /// timer.cancel().unwrap();
  ///
  /// thread::sleep(Duration::from_millis(60));
  /// assert_eq!(
  ///   receiver.try_recv(),
  ///   // When the wait is canceled, the thunk and its Sender will be dropped
  ///   Err(TryRecvError::Disconnected),
  ///   "Received response from canceled wait!",
  /// );
  /// ```
  pub fn cancel(&self) -> Result<(), TimerCancelError> {
    let _guard = self.op_lock.lock().unwrap();
    let (is_waiting_lock, is_waiting_condvar) = &*self.is_waiting;
    if !*is_waiting_lock.lock().unwrap() {
      return Err(TimerCancelError::NotWaiting);
    }

    let (cancel_lock, cancel_condvar) = &*self.is_canceled;

    // This must be try_lock() not lock() in order to avoid a deadlock with
    // the wait thread. At this point the client thread holds the wait
    // lock. If the wait thread holds the cancel lock (if it has finished
    // waiting and is running the task), then we will not be able to get the
    // cancel lock here and the wait thread will not be able to get the wait
    // lock to indicate that it has finished waiting.
    match cancel_lock.try_lock() {
      // We were able to acquire the cancel lock, so cancel the wait
      Ok(mut cancel_guard) => {
        *cancel_guard = true;
        cancel_condvar.notify_one();
        // Let go of the cancel lock so that the wait thread can acquire it
        // (this is necessary for the wait thread's call to
        // cancel_condvar.wait_timeout_while() to terminate). If this thread is
        // still holding the cancel lock when it starts to wait on the
        // is_waiting_condvar, we'll hit a deadlock.
        drop(cancel_guard);
        // Wait until the wait thread acknowledges the cancellation (this allows
        // a client to call start() immediately after cancel() without worrying
        // about a race condition)
        let _ = is_waiting_condvar
          .wait_while(is_waiting_lock.lock().unwrap(), |&mut is_waiting| {
            is_waiting
          })
          .unwrap();
        Ok(())
      }
      // The wait thread holds the cancel lock, so return an error
      // indicating that we were unable to cancel
      Err(TryLockError::WouldBlock) => Err(TimerCancelError::NotWaiting),
      Err(TryLockError::Poisoned(_)) => panic!("Cancel lock was poisoned"),
    }
  }
}

impl Default for ThreadTimer {
  fn default() -> Self {
    Self::new()
  }
}
