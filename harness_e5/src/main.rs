//! vh5 — E5 timer-space.  The real `solve` / `solve_all` / `next_solution`, the
//! real `time_out.rs` and `thread_timer`'s own source (compiled against shuttle
//! primitives, see shim/) run under a bounded-DFS scheduler and a virtual clock.
//!
//!   vh5 <scenario> <max_preemptions> <max_deviations> [--max N]
//!       [--list-prefixes K]                 print the distinct schedule prefixes of length K
//!       [--prefixes FILE --shard I --nshards N]   explore only below the I-th (mod N) prefixes of FILE
//!   vh5 replay <scenario> <comma-separated choices>
//!
//! Output: JSON records on stdout in the worker protocol of the main harness.

mod sched;

use sched::{BoundedDfs, Shared};
use serde_json::json;
use std::collections::BTreeMap;
use std::rc::Rc;
use std::sync::{Arc, Mutex};
use suiron::verif_hooks::Event;
use verif_sync::clock;

const LIMIT_MS: u64 = 1000;

#[derive(Default)]
struct Obs {
    /// outcome string -> count
    outcomes: BTreeMap<String, u64>,
    violations: Vec<(String, String, String, Vec<usize>)>, // prop, class, msg, choices
    hook_events: u64,
}

static OBS: Mutex<Option<Obs>> = Mutex::new(None);
static SHARED: Mutex<Option<Arc<Mutex<Shared>>>> = Mutex::new(None);
/// Is the current phase of the scenario a "slow search" (time may pass at a
/// `query_stopped` hook)?  Menu of advances in ms (index 0 = no time passes).
static ADVANCE_MENU: Mutex<Vec<u64>> = Mutex::new(Vec::new());

fn obs<R>(f: impl FnOnce(&mut Obs) -> R) -> R {
    let mut g = OBS.lock().unwrap();
    f(g.as_mut().unwrap())
}

fn current_choices() -> Vec<usize> {
    let s = SHARED.lock().unwrap().as_ref().unwrap().clone();
    let c = s.lock().unwrap().current.clone();
    c
}

fn violation(prop: &str, class: &str, msg: String) {
    let ch = current_choices();
    obs(|o| {
        if o.violations.len() < 50 {
            o.violations.push((prop.to_string(), class.to_string(), msg, ch))
        }
    });
}

fn on_event(e: Event) {
    obs(|o| o.hook_events += 1);
    // every access to the global query state is a scheduling point
    shuttle::thread::yield_now();
    if e == Event::QueryStopped {
        let menu = ADVANCE_MENU.lock().unwrap().clone();
        if menu.len() > 1 {
            SHARED.lock().unwrap().as_ref().unwrap().lock().unwrap().data_menu = menu.len();
            use shuttle::rand::Rng;
            let k = (shuttle::rand::thread_rng().gen::<u64>() as usize) % menu.len();
            if menu[k] > 0 {
                clock::advance_by(menu[k]);
            }
        }
    }
}

fn set_menu(m: &[u64]) {
    *ADVANCE_MENU.lock().unwrap() = m.to_vec();
}

fn kb() -> suiron::KnowledgeBase {
    let mut kb = suiron::KnowledgeBase::new();
    for r in ["q(a).", "q(b).", "q(c).", "p($X) :- q($X).", "r(1).", "r(2).", "s($X) :- r($X).", "n($X) :- not(p(c)), $X = oops.", "k($X) :- p($X).", "k(z)."] {
        suiron::add_rules(&mut kb, vec![suiron::parse_rule(r).unwrap()]);
    }
    kb
}

const TIMEOUT_MSG: &str = "Query timed out after 1000 milliseconds.";

/// C23 for one `solve_all` result.  `started` / `ended`: virtual time around the call.
fn judge_solve_all(tag: &str, got: &[String], reference: &[&str], started: u64, ended: u64, own_deadline_may_pass: bool) {
    let timed_out = got.last().map_or(false, |s| s == TIMEOUT_MSG);
    let answers: &[String] = if timed_out { &got[..got.len() - 1] } else { got };
    let is_prefix = answers.len() <= reference.len() && answers.iter().zip(reference.iter()).all(|(a, b)| a == b);
    if !is_prefix {
        violation("C23", &format!("{}:not-a-prefix", tag), format!("solve_all returned {:?}, which is not a prefix of {:?}", got, reference));
        return;
    }
    if !timed_out && answers.len() != reference.len() {
        violation("C23", &format!("{}:incomplete-without-timeout", tag), format!("solve_all returned {:?} without the timeout message; the answers are {:?}", got, reference));
    }
    let deadline_passed = ended >= started + LIMIT_MS;
    if timed_out && (!deadline_passed || !own_deadline_may_pass) {
        violation(
            "C23",
            &format!("{}:timeout-although-within-limit", tag),
            format!("solve_all reported a timeout but its own search ran from t={} to t={} ms (limit {} ms): {:?}", started, ended, LIMIT_MS, got),
        );
    }
}

fn outcome(s: String) {
    obs(|o| *o.outcomes.entry(s).or_insert(0) += 1);
}

fn node<'a>(q: &str, kb: &'a suiron::KnowledgeBase) -> Rc<std::cell::RefCell<suiron::SolutionNode<'a>>> {
    let query = suiron::parse_query(q).unwrap();
    suiron::make_base_node(Rc::new(query), kb)
}

fn scenario(name: &str) {
    let kb = kb();
    let p_answers = ["$Z = a", "$Z = b", "$Z = c"];
    let s_answers = ["$W = 1", "$W = 2"];
    match name {
        // fast solve: one answer, never a timeout
        "S1" => {
            set_menu(&[0]);
            let sn = node("p($Z)", &kb);
            let t0 = clock::now();
            let r = suiron::solve(Rc::clone(&sn));
            if r != "$Z = a" {
                violation("C23", "S1:wrong-first-answer", format!("solve returned {:?} at t={}..{}", r, t0, clock::now()));
            }
            outcome(format!("S1 -> {}", r));
        }
        // fast solve_all
        "S2" => {
            set_menu(&[0]);
            let sn = node("p($Z)", &kb);
            let t0 = clock::now();
            let r = suiron::solve_all(Rc::clone(&sn));
            judge_solve_all("S2", &r, &p_answers, t0, clock::now(), false);
            outcome(format!("S2 -> {:?}", r));
        }
        // slow solve_all: the deadline may pass at any query_stopped check
        "S3" => {
            let sn = node("p($Z)", &kb);
            set_menu(&[0, 1500]);
            let t0 = clock::now();
            let r = suiron::solve_all(Rc::clone(&sn));
            let t1 = clock::now();
            set_menu(&[0]);
            judge_solve_all("S3", &r, &p_answers, t0, t1, true);
            outcome(format!("S3 -> {:?} (search {} ms)", r, t1 - t0));
        }
        // two fast sessions back to back; the first one's deadline falls inside the second
        "S4" => {
            set_menu(&[0]);
            let sn = node("p($Z)", &kb);
            let t0 = clock::now();
            let r1 = suiron::solve_all(Rc::clone(&sn));
            judge_solve_all("S4a", &r1, &p_answers, t0, clock::now(), false);
            clock::advance_by(950); // the user is idle
            let sn2 = node("s($W)", &kb);
            set_menu(&[0, 100]); // the second search takes up to 100 ms per step
            let t2 = clock::now();
            let r2 = suiron::solve_all(Rc::clone(&sn2));
            let t3 = clock::now();
            set_menu(&[0]);
            judge_solve_all("S4b", &r2, &s_answers, t2, t3, false);
            if r2 != s_answers.iter().map(|s| s.to_string()).collect::<Vec<_>>() {
                violation("C22", "S4:second-session-differs", format!("after an earlier session, solve_all returned {:?} (t={}..{}) but alone it returns {:?}", r2, t2, t3, s_answers));
            }
            outcome(format!("S4 -> {:?} then {:?}", r1, r2));
        }
        // a timed-out session, then a next_solution session built with parse_query
        "S5" => {
            let sn = node("p($Z)", &kb);
            set_menu(&[0, 1500]);
            let t0 = clock::now();
            let r1 = suiron::solve_all(Rc::clone(&sn));
            let t1 = clock::now();
            set_menu(&[0]);
            judge_solve_all("S5a", &r1, &p_answers, t0, t1, true);
            clock::advance_by(300);
            let q = suiron::parse_query("s($W)").unwrap();
            let qrc = Rc::new(q);
            let sn2 = suiron::make_base_node(Rc::clone(&qrc), &kb);
            let mut got = vec![];
            for _ in 0..4 {
                match suiron::next_solution(Rc::clone(&sn2)) {
                    Some(ss) => got.push(format!("{}", qrc.replace_variables(&ss))),
                    None => break,
                }
            }
            if got != vec!["s(1)".to_string(), "s(2)".to_string()] {
                violation("C22", "S5:next-solution-after-timeout", format!("after a session that returned {:?}, a new next_solution query returned {:?} instead of [s(1), s(2)]", r1, got));
            }
            outcome(format!("S5 -> {:?} then {:?}", r1, got));
        }
        // solve called repeatedly on one node, with idle time in between
        "S6" => {
            set_menu(&[0]);
            let sn = node("p($Z)", &kb);
            let mut got = vec![];
            for i in 0..4 {
                let t0 = clock::now();
                let r = suiron::solve(Rc::clone(&sn));
                if r == TIMEOUT_MSG {
                    violation("C23", "S6:timeout-although-within-limit", format!("solve call {} reported a timeout; it ran from t={} to t={}", i + 1, t0, clock::now()));
                }
                got.push(r);
                clock::advance_by(400);
            }
            let want = vec!["$Z = a", "$Z = b", "$Z = c", "No more."];
            if got != want {
                violation("C23", "S6:wrong-answer-sequence", format!("repeated solve returned {:?}, expected {:?}", got, want));
            }
            outcome(format!("S6 -> {:?}", got));
        }
        // slow solve_all where time passes in 600 ms steps (two deviations reach the deadline)
        "S3b" => {
            let sn = node("p($Z)", &kb);
            set_menu(&[0, 600]);
            let t0 = clock::now();
            let r = suiron::solve_all(Rc::clone(&sn));
            let t1 = clock::now();
            set_menu(&[0]);
            judge_solve_all("S3b", &r, &p_answers, t0, t1, true);
            outcome(format!("S3b -> {:?} (search {} ms)", r, t1 - t0));
        }
        // slow solve: every call returns the next answer, or the timeout message
        // if its own deadline passed; `No more.` only when the answers are used up
        "S7" => {
            let sn = node("p($Z)", &kb);
            let mut got = vec![];
            let mut k = 0usize;
            for i in 0..5 {
                set_menu(&[0, 1500]);
                let t0 = clock::now();
                let r = suiron::solve(Rc::clone(&sn));
                let t1 = clock::now();
                set_menu(&[0]);
                got.push(r.clone());
                if r == TIMEOUT_MSG {
                    if t1 < t0 + LIMIT_MS {
                        violation("C23", "S7:timeout-although-within-limit", format!("solve call {} reported a timeout; it ran from t={} to t={}", i + 1, t0, t1));
                    }
                    break; // what a stopped search answers afterwards is not specified
                } else if r == "No more." {
                    if k != p_answers.len() {
                        violation("C23", "S7:no-more-too-early", format!("solve call {} said 'No more.' after {} of {} answers: {:?}", i + 1, k, p_answers.len(), got));
                    }
                    break;
                } else {
                    if k >= p_answers.len() || r != p_answers[k] {
                        violation("C23", "S7:wrong-answer", format!("solve call {} returned {:?}; the answer sequence is {:?}; so far {:?}", i + 1, r, p_answers, got));
                        break;
                    }
                    k += 1;
                }
                clock::advance_by(200);
            }
            outcome(format!("S7 -> {:?}", got));
        }
        // a session, a long idle period (any timer left armed expires now), another session
        "S8" => {
            set_menu(&[0]);
            let sn = node("p($Z)", &kb);
            let t0 = clock::now();
            let r1 = suiron::solve_all(Rc::clone(&sn));
            judge_solve_all("S8a", &r1, &p_answers, t0, clock::now(), false);
            clock::advance_by(2000);
            let sn2 = node("s($W)", &kb);
            let t2 = clock::now();
            let r2 = suiron::solve_all(Rc::clone(&sn2));
            judge_solve_all("S8b", &r2, &s_answers, t2, clock::now(), false);
            if r2 != s_answers.iter().map(|s| s.to_string()).collect::<Vec<_>>() {
                violation("C22", "S8:second-session-differs", format!("after an earlier session and 2 s of idle time, solve_all returned {:?} but alone it returns {:?}", r2, s_answers));
            }
            outcome(format!("S8 -> {:?} then {:?}", r1, r2));
        }
        // a timed-out solve, then a fresh fast solve_all session
        "S9" => {
            let sn = node("p($Z)", &kb);
            set_menu(&[0, 1500]);
            let r1 = suiron::solve(Rc::clone(&sn));
            set_menu(&[0]);
            clock::advance_by(100);
            let sn2 = node("s($W)", &kb);
            let t2 = clock::now();
            let r2 = suiron::solve_all(Rc::clone(&sn2));
            judge_solve_all("S9b", &r2, &s_answers, t2, clock::now(), false);
            if r2 != s_answers.iter().map(|s| s.to_string()).collect::<Vec<_>>() {
                violation("C22", "S9:session-after-timeout-differs", format!("after a solve that returned {:?}, a fresh solve_all returned {:?} but alone it returns {:?}", r1, r2, s_answers));
            }
            outcome(format!("S9 -> {:?} then {:?}", r1, r2));
        }
        // a timed-out session, then a *ground* query built with parse_query and run with next_solution
        "S5b" => {
            let sn = node("p($Z)", &kb);
            set_menu(&[0, 1500]);
            let t0 = clock::now();
            let r1 = suiron::solve_all(Rc::clone(&sn));
            let t1 = clock::now();
            set_menu(&[0]);
            judge_solve_all("S5ba", &r1, &p_answers, t0, t1, true);
            clock::advance_by(300);
            let q = suiron::parse_query("s(1)").unwrap();
            let qrc = Rc::new(q);
            let sn2 = suiron::make_base_node(Rc::clone(&qrc), &kb);
            let mut got = vec![];
            for _ in 0..3 {
                match suiron::next_solution(Rc::clone(&sn2)) {
                    Some(ss) => got.push(format!("{}", qrc.replace_variables(&ss))),
                    None => break,
                }
            }
            if got != vec!["s(1)".to_string()] {
                violation("C22", "S5b:ground-query-after-timeout", format!("after a session that returned {:?}, the ground query s(1) returned {:?} instead of [s(1)]", r1, got));
            }
            outcome(format!("S5b -> {:?} then {:?}", r1, got));
        }
        // a fast session whose timer may be left armed, idle time, then a next_solution session during which time passes
        "S10" => {
            set_menu(&[0]);
            let sn = node("p($Z)", &kb);
            let t0 = clock::now();
            let r1 = suiron::solve_all(Rc::clone(&sn));
            judge_solve_all("S10a", &r1, &p_answers, t0, clock::now(), false);
            clock::advance_by(950);
            let q = suiron::parse_query("s($W)").unwrap();
            let qrc = Rc::new(q);
            let sn2 = suiron::make_base_node(Rc::clone(&qrc), &kb);
            set_menu(&[0, 100]);
            let mut got = vec![];
            for _ in 0..4 {
                match suiron::next_solution(Rc::clone(&sn2)) {
                    Some(ss) => got.push(format!("{}", qrc.replace_variables(&ss))),
                    None => break,
                }
            }
            set_menu(&[0]);
            if got != vec!["s(1)".to_string(), "s(2)".to_string()] {
                violation("C22", "S10:next-solution-session-differs", format!("after a fast session and 950 ms of idle time, a next_solution query returned {:?} instead of [s(1), s(2)]", got));
            }
            outcome(format!("S10 -> {:?} then {:?}", r1, got));
        }
        // a search that is cut short by the deadline inside not(...): solve must not
        // report the answer that the truncated search makes up
        "S11" => {
            let sn = node("n($Z)", &kb);
            set_menu(&[0, 1500]);
            let t0 = clock::now();
            let r = suiron::solve(Rc::clone(&sn));
            let t1 = clock::now();
            set_menu(&[0]);
            if r == TIMEOUT_MSG {
                if t1 < t0 + LIMIT_MS {
                    violation("C23", "S11:timeout-although-within-limit", format!("solve reported a timeout; it ran from t={} to t={}", t0, t1));
                }
            } else if r != "No more." {
                violation("C23", "S11:wrong-answer", format!("n($Z) has no answers, but solve returned {:?} (search from t={} to t={})", r, t0, t1));
            }
            outcome(format!("S11 -> {:?}", r));
        }
        "S12" => {
            let sn = node("n($Z)", &kb);
            set_menu(&[0, 1500]);
            let t0 = clock::now();
            let r = suiron::solve_all(Rc::clone(&sn));
            let t1 = clock::now();
            set_menu(&[0]);
            judge_solve_all("S12", &r, &[], t0, t1, true);
            outcome(format!("S12 -> {:?}", r));
        }
        // the later session's node is built BEFORE the earlier (slow) session runs
        "S13" => {
            let sn_b = node("s($W)", &kb);
            let sn_a = node("p($Z)", &kb);
            set_menu(&[0, 1500]);
            let t0 = clock::now();
            let r1 = suiron::solve_all(Rc::clone(&sn_a));
            let t1 = clock::now();
            set_menu(&[0]);
            judge_solve_all("S13a", &r1, &p_answers, t0, t1, true);
            clock::advance_by(200);
            let t2 = clock::now();
            let r2 = suiron::solve_all(Rc::clone(&sn_b));
            judge_solve_all("S13b", &r2, &s_answers, t2, clock::now(), false);
            if r2 != s_answers.iter().map(|s| s.to_string()).collect::<Vec<_>>() {
                violation("C22", "S13:prebuilt-session-differs", format!("a query built before an earlier session (which returned {:?}) and run after it returned {:?}; alone it returns {:?}", r1, r2, s_answers));
            }
            outcome(format!("S13 -> {:?} then {:?}", r1, r2));
        }
        // as S13, but the prepared query is run with next_solution (no timer, no new epoch of its own)
        "S13b" => {
            let qb = Rc::new(suiron::parse_query("s($W)").unwrap());
            let sn_b = suiron::make_base_node(Rc::clone(&qb), &kb);
            let sn_a = node("p($Z)", &kb);
            set_menu(&[0, 1500]);
            let t0 = clock::now();
            let r1 = suiron::solve_all(Rc::clone(&sn_a));
            let t1 = clock::now();
            set_menu(&[0]);
            judge_solve_all("S13ba", &r1, &p_answers, t0, t1, true);
            clock::advance_by(200);
            let mut got = vec![];
            for _ in 0..4 {
                match suiron::next_solution(Rc::clone(&sn_b)) {
                    Some(ss) => got.push(format!("{}", qb.replace_variables(&ss))),
                    None => break,
                }
            }
            if got != vec!["s(1)".to_string(), "s(2)".to_string()] {
                violation("C22", "S13b:prebuilt-next-solution-differs", format!("a query built before an earlier session (which returned {:?}) and run after it with next_solution returned {:?} instead of [s(1), s(2)]", r1, got));
            }
            outcome(format!("S13b -> {:?} then {:?}", r1, got));
        }
        // an earlier session that manages its own timer around next_solution (the documented use of
        // start_query_timer / cancel_timer), cancelled or left armed; then a later next_solution session
        "S16" | "S16b" => {
            set_menu(&[0, 700]);
            let timer = suiron::start_query_timer(1000);
            let qa = Rc::new(suiron::parse_query("p($Z)").unwrap());
            let sn_a = suiron::make_base_node(Rc::clone(&qa), &kb);
            let mut first = vec![];
            while let Some(ss) = suiron::next_solution(Rc::clone(&sn_a)) {
                first.push(format!("{}", qa.replace_variables(&ss)));
                if first.len() > 5 {
                    break;
                }
            }
            // S16b: never cancelled, it fires a second after it was started (the handle is only dropped
            // once all observations are made)
            let mut keep = Some(timer);
            if name == "S16" {
                suiron::cancel_timer(keep.take().unwrap());
            }
            set_menu(&[0]);
            clock::advance_by(400);
            let qb = Rc::new(suiron::parse_query("s($W)").unwrap());
            let sn_b = suiron::make_base_node(Rc::clone(&qb), &kb);
            set_menu(&[0, 700]);
            let mut got = vec![];
            for _ in 0..4 {
                match suiron::next_solution(Rc::clone(&sn_b)) {
                    Some(ss) => got.push(format!("{}", qb.replace_variables(&ss))),
                    None => break,
                }
            }
            set_menu(&[0]);
            if got != vec!["s(1)".to_string(), "s(2)".to_string()] {
                violation("C22", &format!("{}:session-after-user-timer-differs", name), format!("after a session with its own query timer (answers {:?}), a query built afterwards and run with next_solution returned {:?} instead of [s(1), s(2)]", first, got));
            }
            outcome(format!("{} -> {:?} then {:?}", name, first, got));
            drop(keep);
        }
        // a slow search with a cheap later clause: whatever a truncated search still finds is not an answer prefix
        "S14" => {
            let k_answers = ["$Z = a", "$Z = b", "$Z = c", "$Z = z"];
            let sn = node("k($Z)", &kb);
            set_menu(&[0, 1500]);
            let t0 = clock::now();
            let r = suiron::solve_all(Rc::clone(&sn));
            let t1 = clock::now();
            set_menu(&[0]);
            judge_solve_all("S14", &r, &k_answers, t0, t1, true);
            outcome(format!("S14 -> {:?} (search {} ms)", r, t1 - t0));
        }
        "S15" => {
            let k_answers = ["$Z = a", "$Z = b", "$Z = c", "$Z = z"];
            let sn = node("k($Z)", &kb);
            let mut got = vec![];
            let mut k = 0usize;
            for i in 0..3 {
                set_menu(&[0, 1500]);
                let t0 = clock::now();
                let r = suiron::solve(Rc::clone(&sn));
                let t1 = clock::now();
                set_menu(&[0]);
                got.push(r.clone());
                if r == TIMEOUT_MSG {
                    if t1 < t0 + LIMIT_MS {
                        violation("C23", "S15:timeout-although-within-limit", format!("solve call {} reported a timeout; it ran from t={} to t={}", i + 1, t0, t1));
                    }
                    break;
                } else if r == "No more." {
                    if k != k_answers.len() {
                        violation("C23", "S15:no-more-too-early", format!("solve call {} said 'No more.' after {} of {} answers: {:?}", i + 1, k, k_answers.len(), got));
                    }
                    break;
                } else {
                    if k >= k_answers.len() || r != k_answers[k] {
                        violation("C23", "S15:wrong-answer", format!("solve call {} returned {:?}; the answer sequence is {:?}; so far {:?}", i + 1, r, k_answers, got));
                        break;
                    }
                    k += 1;
                }
            }
            outcome(format!("S15 -> {:?}", got));
        }
        _ => panic!("unknown scenario {}", name),
    }
}

fn execution(name: &str) {
    clock::init();
    scenario(name);
    // All observations are made.  Let every armed timer expire so that all
    // tasks terminate; this tail is not branched over.
    SHARED.lock().unwrap().as_ref().unwrap().lock().unwrap().tail = true;
    clock::advance_to(u64::MAX);
}

fn main() {
    let args: Vec<String> = std::env::args().skip(1).collect();
    if args.is_empty() {
        eprintln!("usage: vh5 <scenario> <P> <D> [max_executions] | vh5 replay <scenario> <choices>");
        std::process::exit(2);
    }
    suiron::verif_hooks::set_hook(on_event);
    *OBS.lock().unwrap() = Some(Obs::default());
    let shared = Arc::new(Mutex::new(Shared::default()));
    *SHARED.lock().unwrap() = Some(shared.clone());
    let mut config = shuttle::Config::default();
    config.failure_persistence = shuttle::FailurePersistence::None;
    config.max_steps = shuttle::MaxSteps::FailAfter(20_000);
    config.silence_warnings = true;

    let replaying = args[0] == "replay";
    let name = if replaying { args[1].clone() } else { args[0].clone() };
    let mut maxe = u64::MAX;
    let mut list_prefixes: Option<usize> = None;
    let mut prefix_file: Option<String> = None;
    let (mut shard, mut nshards) = (0usize, 1usize);
    let (mut p, mut d) = (usize::MAX, usize::MAX);
    if !replaying {
        p = args[1].parse().unwrap();
        d = args[2].parse().unwrap();
        let mut i = 3;
        while i < args.len() {
            match args[i].as_str() {
                "--max" => maxe = args[i + 1].parse().unwrap(),
                "--list-prefixes" => list_prefixes = Some(args[i + 1].parse().unwrap()),
                "--prefixes" => prefix_file = Some(args[i + 1].clone()),
                "--shard" => shard = args[i + 1].parse().unwrap(),
                "--nshards" => nshards = args[i + 1].parse().unwrap(),
                other => {
                    eprintln!("unknown option {}", other);
                    std::process::exit(2);
                }
            }
            i += 2;
        }
    }
    // the list of schedulers to run, one after the other
    let mut scheds: Vec<BoundedDfs> = vec![];
    if replaying {
        let choices: Vec<usize> = args[2].split(',').filter(|s| !s.is_empty()).map(|s| s.parse().unwrap()).collect();
        scheds.push(BoundedDfs::new(usize::MAX, usize::MAX, 2, shared.clone()).replay(choices));
    } else if let Some(k) = list_prefixes {
        scheds.push(BoundedDfs::new(p, d, 2, shared.clone()).with_branch_limit(k));
    } else if let Some(f) = &prefix_file {
        let text = std::fs::read_to_string(f).expect("prefix file");
        for (i, line) in text.lines().enumerate() {
            if i % nshards != shard {
                continue;
            }
            let pre: Vec<usize> = line.split(',').filter(|s| !s.is_empty()).map(|s| s.parse().unwrap()).collect();
            scheds.push(BoundedDfs::new(p, d, 2, shared.clone()).with_pinned_prefix(pre).with_max_executions(maxe));
        }
    } else {
        scheds.push(BoundedDfs::new(p, d, 2, shared.clone()).with_max_executions(maxe));
    }
    let start = std::time::Instant::now();
    std::panic::set_hook(Box::new(|_| {}));
    let mut all_complete = true;
    let mut prefixes: Vec<String> = vec![];
    let mut failed: Option<String> = None;
    for sched in scheds {
        let n2 = name.clone();
        let cfg = config.clone();
        shared.lock().unwrap().complete = false;
        let listing = list_prefixes;
        let sh2 = shared.clone();
        let pf = Arc::new(Mutex::new(Vec::<String>::new()));
        let pf2 = pf.clone();
        let res = std::panic::catch_unwind(std::panic::AssertUnwindSafe(|| {
            let runner = shuttle::Runner::new(sched, cfg);
            runner.run(move || {
                execution(&n2);
                if let Some(k) = listing {
                    let cur = sh2.lock().unwrap().current.clone();
                    let pre: Vec<String> = cur.iter().take(k).map(|x| x.to_string()).collect();
                    pf2.lock().unwrap().push(pre.join(","));
                }
            })
        }));
        prefixes.extend(pf.lock().unwrap().drain(..));
        let sh = shared.lock().unwrap();
        all_complete &= sh.complete;
        if let Err(pn) = &res {
            let text = if let Some(s) = pn.downcast_ref::<String>() { s.clone() } else if let Some(s) = pn.downcast_ref::<&str>() { s.to_string() } else { "panic".into() };
            let class = if text.contains("deadlock") { "deadlock" } else if sh.divergence.is_some() { "machinery-divergence" } else { "panic" };
            let ch = sh.current.clone();
            obs(|o| o.violations.push(("C23".into(), format!("{}:{}", name, class), format!("execution failed: {}", text.lines().next().unwrap_or("")), ch)));
            failed = Some(class.to_string());
            all_complete = false;
            break;
        }
    }
    let _ = failed;
    if list_prefixes.is_some() {
        for l in &prefixes {
            println!("{}", l);
        }
        std::process::exit(if all_complete { 0 } else { 3 });
    }
    let sh = shared.lock().unwrap();
    let o = OBS.lock().unwrap().take().unwrap();
    if replaying {
        for (k, v) in &o.outcomes {
            println!("outcome x{}: {}", v, k);
        }
        for (p, c, m, _) in &o.violations {
            println!("VERDICT {} {} : {}", p, c, m);
        }
        if o.violations.is_empty() {
            println!("VERDICT: no violation on this schedule");
        }
        std::process::exit(if o.violations.is_empty() { 0 } else { 1 });
    }
    let mut seen = std::collections::BTreeSet::new();
    for (p, c, m, ch) in &o.violations {
        let first = seen.insert((p.clone(), c.clone()));
        let chs = ch.iter().map(|x| x.to_string()).collect::<Vec<_>>().join(",");
        println!("{}", json!({"t":"viol","prop":p,"class":c,"kind":c,"msg":m,"witness": if first { json!({"engine":"e5","scenario":name,"choices":chs}) } else { serde_json::Value::Null }}));
    }
    for (k, v) in o.outcomes.iter() {
        println!("{}", json!({"t":"outcome","scenario":name,"outcome":k,"schedules":v}));
    }
    let mut stats = BTreeMap::new();
    stats.insert(format!("e5.{}.schedules", name), sh.executions);
    stats.insert(format!("e5.{}.choice_points", name), sh.choice_points);
    println!("{}", json!({"t":"max","k":format!("e5.{}.max_depth", name),"v":sh.max_depth}));
    stats.insert(format!("e5.{}.hook_events", name), o.hook_events);
    stats.insert(format!("e5.{}.incomplete", name), if all_complete { 0 } else { 1 });
    stats.insert(format!("e5.{}.wall_ms", name), start.elapsed().as_millis() as u64);
    stats.insert("e5.schedules".into(), sh.executions);
    stats.insert("e5.choice_points".into(), sh.choice_points);
    println!("{}", json!({"t":"stats","c":stats}));
    println!("{}", json!({"t":"done"}));
}
