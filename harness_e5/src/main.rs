//! vh5 — E5 timer-space.  The real `solve` / `solve_all` / `next_solution`, the
//! real `time_out.rs` and `thread_timer`'s own source (compiled against shuttle
//! primitives, see shim/) run under a bounded-DFS scheduler and a virtual clock.
//!
//!   vh5 <scenario> <max_preemptions> <max_deviations> [max_executions]
//!   vh5 replay <scenario> <comma-separated choices>
//!
//! Output: JSON records on stdout in the worker protocol of the main harness.

mod sched;

use sched::{BoundedDfs, Shared};
use serde_json::json;
use std::collections::BTreeMap;
use std::rc::Rc;
use std::sync::{Arc, Mutex};
use suiron::verif_hooks::Event;
use verif_sync::clock;

const LIMIT_MS: u64 = 1000;

#[derive(Default)]
struct Obs {
    /// outcome string -> count
    outcomes: BTreeMap<String, u64>,
    violations: Vec<(String, String, String, Vec<usize>)>, // prop, class, msg, choices
    hook_events: u64,
}

static OBS: Mutex<Option<Obs>> = Mutex::new(None);
static SHARED: Mutex<Option<Arc<Mutex<Shared>>>> = Mutex::new(None);
/// Is the current phase of the scenario a "slow search" (time may pass at a
/// `query_stopped` hook)?  Menu of advances in ms (index 0 = no time passes).
static ADVANCE_MENU: Mutex<Vec<u64>> = Mutex::new(Vec::new());

fn obs<R>(f: impl FnOnce(&mut Obs) -> R) -> R {
    let mut g = OBS.lock().unwrap();
    f(g.as_mut().unwrap())
}

fn current_choices() -> Vec<usize> {
    let s = SHARED.lock().unwrap().as_ref().unwrap().clone();
    let c = s.lock().unwrap().current.clone();
    c
}

fn violation(prop: &str, class: &str, msg: String) {
    let ch = current_choices();
    obs(|o| {
        if o.violations.len() < 50 {
            o.violations.push((prop.to_string(), class.to_string(), msg, ch))
        }
    });
}

fn on_event(e: Event) {
    obs(|o| o.hook_events += 1);
    // every access to the global query state is a scheduling point
    shuttle::thread::yield_now();
    if e == Event::QueryStopped {
        let menu = ADVANCE_MENU.lock().unwrap().clone();
        if menu.len() > 1 {
            use shuttle::rand::Rng;
            let k = (shuttle::rand::thread_rng().gen::<u64>() as usize) % menu.len();
            if menu[k] > 0 {
                clock::advance_by(menu[k]);
            }
        }
    }
}

fn set_menu(m: &[u64]) {
    *ADVANCE_MENU.lock().unwrap() = m.to_vec();
}

fn kb() -> suiron::KnowledgeBase {
    let mut kb = suiron::KnowledgeBase::new();
    for r in ["q(a).", "q(b).", "q(c).", "p($X) :- q($X).", "r(1).", "r(2).", "s($X) :- r($X)."] {
        suiron::add_rules(&mut kb, vec![suiron::parse_rule(r).unwrap()]);
    }
    kb
}

const TIMEOUT_MSG: &str = "Query timed out after 1000 milliseconds.";

/// C23 for one `solve_all` result.  `started` / `ended`: virtual time around the call.
fn judge_solve_all(tag: &str, got: &[String], reference: &[&str], started: u64, ended: u64, own_deadline_may_pass: bool) {
    let timed_out = got.last().map_or(false, |s| s == TIMEOUT_MSG);
    let answers: &[String] = if timed_out { &got[..got.len() - 1] } else { got };
    let is_prefix = answers.len() <= reference.len() && answers.iter().zip(reference.iter()).all(|(a, b)| a == b);
    if !is_prefix {
        violation("C23", &format!("{}:not-a-prefix", tag), format!("solve_all returned {:?}, which is not a prefix of {:?}", got, reference));
        return;
    }
    if !timed_out && answers.len() != reference.len() {
        violation("C23", &format!("{}:incomplete-without-timeout", tag), format!("solve_all returned {:?} without the timeout message; the answers are {:?}", got, reference));
    }
    let deadline_passed = ended >= started + LIMIT_MS;
    if timed_out && (!deadline_passed || !own_deadline_may_pass) {
        violation(
            "C23",
            &format!("{}:timeout-although-within-limit", tag),
            format!("solve_all reported a timeout but its own search ran from t={} to t={} ms (limit {} ms): {:?}", started, ended, LIMIT_MS, got),
        );
    }
}

fn outcome(s: String) {
    obs(|o| *o.outcomes.entry(s).or_insert(0) += 1);
}

fn node<'a>(q: &str, kb: &'a suiron::KnowledgeBase) -> Rc<std::cell::RefCell<suiron::SolutionNode<'a>>> {
    let query = suiron::parse_query(q).unwrap();
    suiron::make_base_node(Rc::new(query), kb)
}

fn scenario(name: &str) {
    let kb = kb();
    let p_answers = ["$Z = a", "$Z = b", "$Z = c"];
    let s_answers = ["$W = 1", "$W = 2"];
    match name {
        // fast solve: one answer, never a timeout
        "S1" => {
            set_menu(&[0]);
            let sn = node("p($Z)", &kb);
            let t0 = clock::now();
            let r = suiron::solve(Rc::clone(&sn));
            if r != "$Z = a" {
                violation("C23", "S1:wrong-first-answer", format!("solve returned {:?} at t={}..{}", r, t0, clock::now()));
            }
            outcome(format!("S1 -> {}", r));
        }
        // fast solve_all
        "S2" => {
            set_menu(&[0]);
            let sn = node("p($Z)", &kb);
            let t0 = clock::now();
            let r = suiron::solve_all(Rc::clone(&sn));
            judge_solve_all("S2", &r, &p_answers, t0, clock::now(), false);
            outcome(format!("S2 -> {:?}", r));
        }
        // slow solve_all: the deadline may pass at any query_stopped check
        "S3" => {
            let sn = node("p($Z)", &kb);
            set_menu(&[0, 1500]);
            let t0 = clock::now();
            let r = suiron::solve_all(Rc::clone(&sn));
            let t1 = clock::now();
            set_menu(&[0]);
            judge_solve_all("S3", &r, &p_answers, t0, t1, true);
            outcome(format!("S3 -> {:?} (search {} ms)", r, t1 - t0));
        }
        // two fast sessions back to back; the first one's deadline falls inside the second
        "S4" => {
            set_menu(&[0]);
            let sn = node("p($Z)", &kb);
            let t0 = clock::now();
            let r1 = suiron::solve_all(Rc::clone(&sn));
            judge_solve_all("S4a", &r1, &p_answers, t0, clock::now(), false);
            clock::advance_by(950); // the user is idle
            let sn2 = node("s($W)", &kb);
            set_menu(&[0, 100]); // the second search takes up to 100 ms per step
            let t2 = clock::now();
            let r2 = suiron::solve_all(Rc::clone(&sn2));
            let t3 = clock::now();
            set_menu(&[0]);
            judge_solve_all("S4b", &r2, &s_answers, t2, t3, false);
            if r2 != s_answers.iter().map(|s| s.to_string()).collect::<Vec<_>>() {
                violation("C22", "S4:second-session-differs", format!("after an earlier session, solve_all returned {:?} (t={}..{}) but alone it returns {:?}", r2, t2, t3, s_answers));
            }
            outcome(format!("S4 -> {:?} then {:?}", r1, r2));
        }
        // a timed-out session, then a next_solution session built with parse_query
        "S5" => {
            let sn = node("p($Z)", &kb);
            set_menu(&[0, 1500]);
            let t0 = clock::now();
            let r1 = suiron::solve_all(Rc::clone(&sn));
            let t1 = clock::now();
            set_menu(&[0]);
            judge_solve_all("S5a", &r1, &p_answers, t0, t1, true);
            clock::advance_by(300);
            let q = suiron::parse_query("s($W)").unwrap();
            let qrc = Rc::new(q);
            let sn2 = suiron::make_base_node(Rc::clone(&qrc), &kb);
            let mut got = vec![];
            for _ in 0..4 {
                match suiron::next_solution(Rc::clone(&sn2)) {
                    Some(ss) => got.push(format!("{}", qrc.replace_variables(&ss))),
                    None => break,
                }
            }
            if got != vec!["s(1)".to_string(), "s(2)".to_string()] {
                violation("C22", "S5:next-solution-after-timeout", format!("after a session that returned {:?}, a new next_solution query returned {:?} instead of [s(1), s(2)]", r1, got));
            }
            outcome(format!("S5 -> {:?} then {:?}", r1, got));
        }
        // solve called repeatedly on one node, with idle time in between
        "S6" => {
            set_menu(&[0]);
            let sn = node("p($Z)", &kb);
            let mut got = vec![];
            for i in 0..4 {
                let t0 = clock::now();
                let r = suiron::solve(Rc::clone(&sn));
                if r == TIMEOUT_MSG {
                    violation("C23", "S6:timeout-although-within-limit", format!("solve call {} reported a timeout; it ran from t={} to t={}", i + 1, t0, clock::now()));
                }
                got.push(r);
                clock::advance_by(400);
            }
            let want = vec!["$Z = a", "$Z = b", "$Z = c", "No more."];
            if got != want {
                violation("C23", "S6:wrong-answer-sequence", format!("repeated solve returned {:?}, expected {:?}", got, want));
            }
            outcome(format!("S6 -> {:?}", got));
        }
        _ => panic!("unknown scenario {}", name),
    }
}

fn execution(name: &str) {
    clock::init();
    scenario(name);
    // All observations are made.  Let every armed timer expire so that all
    // tasks terminate; this tail is not branched over.
    SHARED.lock().unwrap().as_ref().unwrap().lock().unwrap().tail = true;
    clock::advance_to(u64::MAX);
}

fn main() {
    let args: Vec<String> = std::env::args().skip(1).collect();
    if args.is_empty() {
        eprintln!("usage: vh5 <scenario> <P> <D> [max_executions] | vh5 replay <scenario> <choices>");
        std::process::exit(2);
    }
    suiron::verif_hooks::set_hook(on_event);
    *OBS.lock().unwrap() = Some(Obs::default());
    let shared = Arc::new(Mutex::new(Shared::default()));
    *SHARED.lock().unwrap() = Some(shared.clone());
    let mut config = shuttle::Config::default();
    config.failure_persistence = shuttle::FailurePersistence::None;
    config.max_steps = shuttle::MaxSteps::FailAfter(20_000);
    config.silence_warnings = true;

    let (name, sched, replaying) = if args[0] == "replay" {
        let choices: Vec<usize> = args[2].split(',').filter(|s| !s.is_empty()).map(|s| s.parse().unwrap()).collect();
        (args[1].clone(), BoundedDfs::new(usize::MAX, usize::MAX, 2, shared.clone()).replay(choices), true)
    } else {
        let p: usize = args[1].parse().unwrap();
        let d: usize = args[2].parse().unwrap();
        let maxe: u64 = args.get(3).and_then(|s| s.parse().ok()).unwrap_or(u64::MAX);
        (args[0].clone(), BoundedDfs::new(p, d, 2, shared.clone()).with_max_executions(maxe), false)
    };
    let start = std::time::Instant::now();
    let n2 = name.clone();
    std::panic::set_hook(Box::new(|_| {}));
    let res = std::panic::catch_unwind(std::panic::AssertUnwindSafe(|| {
        let runner = shuttle::Runner::new(sched, config);
        runner.run(move || execution(&n2))
    }));
    let sh = shared.lock().unwrap();
    if let Err(p) = &res {
        let text = if let Some(s) = p.downcast_ref::<String>() { s.clone() } else if let Some(s) = p.downcast_ref::<&str>() { s.to_string() } else { "panic".into() };
        let class = if text.contains("deadlock") { "deadlock" } else if sh.divergence.is_some() { "machinery-divergence" } else { "panic" };
        let ch = sh.current.clone();
        obs(|o| o.violations.push(("C23".into(), format!("{}:{}", name, class), format!("execution failed: {}", text.lines().next().unwrap_or("")), ch)));
    }
    let o = OBS.lock().unwrap().take().unwrap();
    if replaying {
        for (k, v) in &o.outcomes {
            println!("outcome x{}: {}", v, k);
        }
        for (p, c, m, _) in &o.violations {
            println!("VERDICT {} {} : {}", p, c, m);
        }
        if o.violations.is_empty() {
            println!("VERDICT: no violation on this schedule");
        }
        std::process::exit(if o.violations.is_empty() { 0 } else { 1 });
    }
    let mut seen = std::collections::BTreeSet::new();
    for (p, c, m, ch) in &o.violations {
        let first = seen.insert((p.clone(), c.clone()));
        let chs = ch.iter().map(|x| x.to_string()).collect::<Vec<_>>().join(",");
        println!("{}", json!({"t":"viol","prop":p,"class":c,"kind":c,"msg":m,"witness": if first { json!({"engine":"e5","scenario":name,"choices":chs}) } else { serde_json::Value::Null }}));
    }
    for (k, v) in o.outcomes.iter().take(12) {
        println!("{}", json!({"t":"sample","v":{"scenario":name,"outcome":k,"schedules":v}}));
    }
    let mut stats = BTreeMap::new();
    stats.insert(format!("e5.{}.schedules", name), sh.executions);
    stats.insert(format!("e5.{}.choice_points", name), sh.choice_points);
    stats.insert(format!("e5.{}.max_depth", name), sh.max_depth as u64);
    stats.insert(format!("e5.{}.distinct_outcomes", name), o.outcomes.len() as u64);
    stats.insert(format!("e5.{}.hook_events", name), o.hook_events);
    stats.insert(format!("e5.{}.complete", name), if sh.complete { 1 } else { 0 });
    stats.insert(format!("e5.{}.wall_ms", name), start.elapsed().as_millis() as u64);
    stats.insert("e5.schedules".into(), sh.executions);
    stats.insert("e5.choice_points".into(), sh.choice_points);
    println!("{}", json!({"t":"stats","c":stats}));
    println!("{}", json!({"t":"done"}));
}
