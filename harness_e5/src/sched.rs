//! Iterative, preemption- and deviation-bounded depth-first scheduler for
//! shuttle.  Choice points are of two kinds: which task runs next (switching
//! away from a still-runnable task costs one preemption) and environment
//! choices requested through `shuttle::rand` ("does the deadline pass here?",
//! any non-zero answer costs one deviation).  Every execution replays a prefix
//! of recorded choices — a divergence while replaying is a hard error — and
//! then takes choice 0 at every later point.

use shuttle::scheduler::{Schedule, Scheduler, Task, TaskId};
use std::sync::{Arc, Mutex};

#[derive(Clone, Debug, PartialEq)]
pub enum Kind {
    Task,
    Data,
}

#[derive(Clone, Debug)]
pub struct Level {
    pub kind: Kind,
    pub n_options: usize,
    pub chosen: usize,
    /// preemptions / deviations spent before this level
    pub pre_before: usize,
    pub dev_before: usize,
    /// task level: was the current task among the runnable ones (then option 0 is "continue")
    pub current_runnable: bool,
}

#[derive(Default)]
pub struct Shared {
    /// choices of the execution in progress
    pub current: Vec<usize>,
    pub executions: u64,
    pub choice_points: u64,
    pub max_depth: usize,
    pub data_menu: usize,
    pub divergence: Option<String>,
    pub complete: bool,
    /// set by the harness once the scenario has made all its observations:
    /// the remaining steps (armed timers expiring, tasks terminating) are run
    /// on one canonical schedule and not branched over
    pub tail: bool,
}

pub struct BoundedDfs {
    pub max_pre: usize,
    pub max_dev: usize,
    levels: Vec<Level>,
    step: usize,
    pre: usize,
    dev: usize,
    started: bool,
    /// levels below this index are pinned (sharding by schedule prefix / replay)
    pinned: Vec<usize>,
    replay_only: bool,
    pub shared: Arc<Mutex<Shared>>,
    max_executions: u64,
    /// levels at or beyond this index are never branched over (used to list
    /// the distinct schedule prefixes of a given length for sharding)
    branch_limit: usize,
}

impl BoundedDfs {
    pub fn new(max_pre: usize, max_dev: usize, data_menu: usize, shared: Arc<Mutex<Shared>>) -> Self {
        shared.lock().unwrap().data_menu = data_menu;
        BoundedDfs { max_pre, max_dev, levels: vec![], step: 0, pre: 0, dev: 0, started: false, pinned: vec![], replay_only: false, shared, max_executions: u64::MAX, branch_limit: usize::MAX }
    }
    pub fn with_pinned_prefix(mut self, p: Vec<usize>) -> Self {
        self.pinned = p;
        self
    }
    pub fn replay(mut self, p: Vec<usize>) -> Self {
        self.pinned = p;
        self.replay_only = true;
        self
    }
    pub fn with_branch_limit(mut self, n: usize) -> Self {
        self.branch_limit = n;
        self
    }
    pub fn with_max_executions(mut self, n: u64) -> Self {
        self.max_executions = n;
        self
    }

    fn option_cost(l: &Level, opt: usize) -> (usize, usize) {
        if opt == 0 {
            return (0, 0);
        }
        match l.kind {
            Kind::Task => (if l.current_runnable { 1 } else { 0 }, 0),
            Kind::Data => (0, 1),
        }
    }

    /// Move to the next unexplored schedule; false when the space is exhausted.
    fn backtrack(&mut self) -> bool {
        while let Some(mut l) = self.levels.pop() {
            let idx = self.levels.len();
            if idx < self.pinned.len() {
                // pinned levels are never changed
                self.levels.push(l);
                return false;
            }
            if idx >= self.branch_limit {
                continue;
            }
            let mut next = l.chosen + 1;
            while next < l.n_options {
                let (cp, cd) = Self::option_cost(&l, next);
                if l.pre_before + cp <= self.max_pre && l.dev_before + cd <= self.max_dev {
                    break;
                }
                next += 1;
            }
            if next < l.n_options {
                l.chosen = next;
                self.levels.push(l);
                return true;
            }
        }
        false
    }

    fn choose(&mut self, kind: Kind, n_options: usize, current_runnable: bool) -> usize {
        if self.shared.lock().unwrap().tail {
            return 0;
        }
        let s = self.step;
        self.step += 1;
        let chosen;
        if s < self.levels.len() {
            let l = &self.levels[s];
            if l.kind != kind || l.n_options != n_options || l.current_runnable != current_runnable {
                let msg = format!("divergence while replaying a schedule prefix at step {}: recorded {:?}/{} options, now {:?}/{} options", s, l.kind, l.n_options, kind, n_options);
                self.shared.lock().unwrap().divergence = Some(msg.clone());
                panic!("{}", msg);
            }
            chosen = l.chosen;
        } else {
            let mut c = 0;
            if s < self.pinned.len() {
                c = self.pinned[s];
                if c >= n_options {
                    let msg = format!("pinned choice {} out of range ({} options) at step {}", c, n_options, s);
                    self.shared.lock().unwrap().divergence = Some(msg.clone());
                    panic!("{}", msg);
                }
            }
            self.levels.push(Level { kind, n_options, chosen: c, pre_before: self.pre, dev_before: self.dev, current_runnable });
            chosen = c;
        }
        let (cp, cd) = Self::option_cost(&self.levels[s], chosen);
        self.pre += cp;
        self.dev += cd;
        let mut sh = self.shared.lock().unwrap();
        sh.current.push(chosen);
        sh.choice_points += 1;
        if sh.current.len() > sh.max_depth {
            sh.max_depth = sh.current.len();
        }
        chosen
    }
}

impl Scheduler for BoundedDfs {
    fn new_execution(&mut self) -> Option<Schedule> {
        if self.started {
            if self.replay_only {
                return None;
            }
            if !self.backtrack() {
                self.shared.lock().unwrap().complete = true;
                return None;
            }
        }
        {
            let mut sh = self.shared.lock().unwrap();
            if sh.executions >= self.max_executions {
                return None;
            }
            sh.executions += 1;
            sh.current.clear();
            sh.tail = false;
        }
        self.started = true;
        self.step = 0;
        self.pre = 0;
        self.dev = 0;
        Some(Schedule::new(0))
    }

    fn next_task(&mut self, runnable: &[&Task], current: Option<TaskId>, _is_yielding: bool) -> Option<TaskId> {
        // canonical order: the running task first if still runnable, then ascending ids
        let mut ids: Vec<TaskId> = runnable.iter().map(|t| t.id()).collect();
        ids.sort_by_key(|t| usize::from(*t));
        let mut current_runnable = false;
        if let Some(c) = current {
            if let Some(p) = ids.iter().position(|t| *t == c) {
                ids.remove(p);
                ids.insert(0, c);
                current_runnable = true;
            }
        }
        let k = self.choose(Kind::Task, ids.len(), current_runnable);
        Some(ids[k])
    }

    fn next_u64(&mut self) -> u64 {
        // the harness sets the menu size just before it asks
        let n = self.shared.lock().unwrap().data_menu.max(2);
        self.choose(Kind::Data, n, false) as u64
    }
}
