#!/bin/bash
# try_seed.sh <seed dir with patch.diff, demo.rs> <worktree> [check ids...]
# 1. confirms the seeded change in the scratch worktree: baseline green with the patch,
#    demo fails with it and passes without it;
# 2. applies it to /repo, runs the named quick checks, and restores /repo.
# Prints one summary line per step.  Never leaves /repo modified.
sd="$1"; wt="$2"; shift 2
export CARGO_NET_OFFLINE=true
cd "$wt" || exit 2
git checkout -q -- . ; rm -f tests/demo.rs
git apply "$sd/patch.diff" || { echo "SEED patch does not apply"; exit 2; }
cp "$sd/demo.rs" tests/demo.rs
out=$(cargo nextest run --workspace --no-fail-fast --test-threads 8 --offline 2>&1)
base_pass=$(echo "$out" | grep -E "^\s+PASS" | grep -vc "::demo " )
base_fail=$(echo "$out" | grep -E "^\s+FAIL" | grep -v "::demo " | sort -u | wc -l)
demo_fail=$(echo "$out" | grep -E "^\s+FAIL" | grep "::demo " | sort -u | wc -l)
echo "SEED with-patch: baseline pass=$base_pass fail=$base_fail ; demo failing tests=$demo_fail"
git checkout -q -- .
out=$(cargo nextest run --test demo --offline 2>&1)
demo_fail0=$(echo "$out" | grep -E "^\s+FAIL" | sort -u | wc -l)
demo_pass0=$(echo "$out" | grep -E "^\s+PASS" | wc -l)
echo "SEED without-patch: demo pass=$demo_pass0 fail=$demo_fail0"
rm -f tests/demo.rs
ok=1
[ "$base_pass" = "100" ] && [ "$base_fail" = "0" ] && [ "$demo_fail" -ge 1 ] && [ "$demo_fail0" = "0" ] && [ "$demo_pass0" -ge 1 ] || ok=0
echo "SEED confirmed=$ok"
[ $# -eq 0 ] && exit 0
if [ -n "${SANDBOX:-}" ]; then
  # development mode: a private copy of /verif whose harness depends on the scratch
  # worktree instead of /repo, so that several seeds can be tried at once and /repo
  # stays untouched.  (The recorded results in seeded/*/meta.json come from the
  # official mode below.)
  vd="$wt.verif"; mkdir -p "$vd"
  rsync -a --delete --exclude target --exclude .git --exclude replays --exclude evidence --exclude seeded /verif/ "$vd/"
  sed -i "s#path = \"/repo\"#path = \"$wt\"#" "$vd"/harness*/Cargo.toml
  repo="$wt"
else
  vd=/verif; repo=/repo
  if [ -n "$(git -C /repo status --porcelain --untracked-files=no)" ]; then echo "/repo is not clean; refusing"; exit 2; fi
fi
cd "$vd"
git -C "$repo" apply "$sd/patch.diff" || exit 2
for id in "$@"; do
  res=$(./check "$id" --tier "${SEED_TIER:-quick}" 2>&1 | grep -E "^(VIOLATION|OK|FAIL|MACHINERY|KNOWN)" | cut -c1-260)
  if echo "$res" | grep -q "^VIOLATION property=$id"; then echo "SEED check $id: DETECTED"; else echo "SEED check $id: missed"; fi
  echo "$res" | sed 's/^/    /' | (head -4; tail -n 1)
done
git -C "$repo" checkout -q -- .
