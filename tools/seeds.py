#!/usr/bin/env python3
"""seeds.py run [ids...]   confirm every seeded change and run the checks named for it
   seeds.py table          print the detection table (markdown) from seeded/*/meta.json

Confirmation (scratch worktree /tmp/wt_seed_<k> of /repo HEAD, removed afterwards):
  with the patch: build ok, the 100 baseline tests pass (nextest), the demo fails;
  without the patch: the demo passes.   C24 demos run under Miri.
Checks: a private copy of /verif whose harness depends on the patched scratch worktree
(tools/try_seed.sh SANDBOX mode), so /repo is never modified and several seeds run at once.
`seeds.py run --official <id>` applies the patch to /repo itself instead, runs the checks
in /verif and restores /repo (the method of the brief; one at a time)."""
import json, os, subprocess, sys, re, concurrent.futures, shutil

V = "/verif"
CACHE = "/tmp/seed_target_cache"

def build_cache():
    """A pristine worktree whose target directory (all dependencies built) is copied into every seed worktree."""
    if os.path.isdir(CACHE + "/target"):
        return
    sh(f"git -C /repo worktree remove --force {CACHE}; rm -rf {CACHE}; git -C /repo worktree add --detach {CACHE} HEAD && cp /repo/Cargo.lock {CACHE}/")
    sh("cargo nextest run --workspace --no-run --offline", cwd=CACHE)
SEEDS = {
 # id: (property, what it needs in order to manifest, checks to run)
 "C01-m1": ("C01", "a fact whose head holds a variable (nested in a term) matched with an unbound caller argument, then a later clause with variables: the fact's variable ids are released while still live", ["C01", "C10", "C08"]),
 "C01-m2": ("C01", "a goal whose first argument is `$_` or a function term, resolved against clauses whose first head argument is a constant (first-argument quick reject)", ["C01"]),
 "C02-m1": ("C02", "a cut that is reached only on backtracking into a disjunction, then fails, and the call is asked again (flag checked only after a fresh rule body fails)", ["C02"]),
 "C02-m2": ("C02", "cut executed while a saved conjunction tail is retried, left goal with several solutions; two cooperating sites (flagging of head nodes removed, And checks its own flag only inside the retry loop)", ["C02"]),
 "C03-m1": ("C03", "not((G1, Test)) built through the API where Test uses a variable bound by G1: the tests are moved to the front of the negated conjunction", ["C03"]),
 "C03-m2": ("C03", "a successful not, a clause with still-unbound body-only variables, and a callee with variables of its own to the right of the not (id counter lowered to the highest bound id)", ["C03", "C10"]),
 "C04-m1": ("C04", "a print between the first goal of a conjunction and a call to a predicate without clauses: the conjunction fails early and the prints (and their repetitions on retry) are skipped", ["C04"]),
 "C04-m2": ("C04", "a format with more %s markers than values and text after the first unfilled marker (zip drops the leftover pieces)", ["C04"]),
 "C05-m1": ("C05", "a not(G) that failed (G provable), in a rule body that failed, re-asked after exhaustion", ["C05", "C03"]),
 "C05-m2": ("C05", "a disjunction whose later alternative prints and then fails, re-asked after exhaustion: the tail is rebuilt and prints again", ["C05"]),
 "C06-m1": ("C06", "$X unbound with an id past the end of the substitution set, unified with a variable whose chain leads back to it (bounds check before the identity check)", ["C06", "C08"]),
 "C06-m2": ("C06", "complex terms in which every argument position has `$_` on one side, with a non-empty prior substitution (functor fast path returns the empty set)", ["C06", "C09"]),
 "C07-m1": ("C07", "a list pattern with a tail variable on the right / goal side whose tail must take exactly [] (end-of-list test moved above the tail dispatch)", ["C07", "C06"]),
 "C07-m2": ("C07", "left operand (or rule head) whose arguments are all `$_`, prior bindings inspected afterwards", ["C07", "C06"]),
 "C08-m1": ("C08", "a chain of three aliased variables closed from its unbound end (alias check shortened to one binding deep)", ["C08"]),
 "C08-m2": ("C08", "a fact with a variable nested in a term, an unbound caller argument, a later clause whose fresh variable meets it (ids reused, cycle through the structure)", ["C08", "C10", "C01"]),
 "C09-m1": ("C09", "complex terms whose every argument is covered by `$_` on one side, earlier bindings present", ["C09", "C06"]),
 "C09-m2": ("C09", "`$_` as a list tail (API-built) against a remainder that is not exactly one term", ["C09", "C06"]),
 "C10-m1": ("C10", "a fact with a variable nested in a compound argument called from inside a rule body, followed by a later renaming", ["C10"]),
 "C10-m2": ("C10", "renaming a list of >= 2 elements whose last element is a list or [] (rebuilt through make_linked_list, which splices)", ["C10", "C15"]),
 "C11-m1": ("C11", "two clauses of a predicate, the earlier one with variables failing at the head, the later one reusing a name and adding a new one (one VarMap per goal instead of per clause)", ["C11", "C01"]),
 "C11-m2": ("C11", "two alpha-equivalent clauses of one predicate that become textually identical under a renaming (add_rules de-duplicates by name-sensitive equality)", ["C11", "C01"]),
 "C12-m1": ("C12", ">= 3 arguments, >= 2 integers before the first float, inexact integer prefix (lazy int-to-float promotion)", ["C12"]),
 "C12-m2": ("C12", ">= 3 arguments to subtract / divide with floats where an intermediate rounding matters (re-association)", ["C12"]),
 "C13-m1": ("C13", "join(...) on the right with an equal atom on the left (swap only for numeric / variable left operands)", ["C13"]),
 "C13-m2": ("C13", "both operands function terms, not identical, equal values (result compared structurally with the other function)", ["C13"]),
 "C14-m1": ("C14", "two neighbouring integers above 2^53 (all numbers compared as f64)", ["C14"]),
 "C14-m2": ("C14", "the same non-constant term on both sides of ==, <=, >= (identical-operand fast path)", ["C14"]),
 "C15-m1": ("C15", "a clause holding a list of >= 2 elements whose last element is a list, fetched from the knowledge base", ["C15", "C10"]),
 "C15-m2": ("C15", "include/exclude on a list ending in a bound tail variable with exactly (heads + 1) survivors (count-equality fast path)", ["C15", "C17"]),
 "C16-m1": ("C16", "append over a list with two levels of bound tail variables", ["C16", "C15"]),
 "C16-m2": ("C16", "append whose last collected element is a list or [] (result built with make_linked_list)", ["C16", "C15"]),
 "C17-m1": ("C17", "count over a chain of >= 2 bound tail variables (stored node count used for the bound tail)", ["C17"]),
 "C17-m2": ("C17", "include/exclude where a list element is a variable bound to a matching term, unbound, or `$_` (rejected by term kind before unifying)", ["C17"]),
 "C18-m1": ("C18", "a multi-byte character inside functor(args) text going through parse_subgoal (char indices used as byte offsets)", ["C18"]),
 "C18-m2": ("C18", "a list text with an odd number of quotes at depth 0 and a character to the left of the quote (loop exit skipped)", ["C18"]),
 "C19-m1": ("C19", "a list text of >= 2 elements, no tail variable, whose last element is a list (parser builds through make_linked_list)", ["C19", "C15"]),
 "C19-m2": ("C19", "same-kind nesting two levels deep inside an argument list with a sibling argument after the inner term", ["C19"]),
 "C20-m1": ("C20", "an escaped punctuation atom (\\,) at nesting depth >= 2 of an argument list", ["C20"]),
 "C20-m2": ("C20", "a list element that is a complex term or list containing a double-quoted atom", ["C20"]),
 "C21-m1": ("C21", "a blank or comment-only line between two lines of one rule (file processed block by block)", ["C21"]),
 "C21-m2": ("C21", "loading a file into a knowledge base that already holds rules for a predicate the file also defines (HashMap::extend replaces)", ["C21"]),
 "C22-m2": ("C22", "a particular interleaving: the timer of a finished query fires while cancel fails, and the later query (next_solution) was built before the stale callback stored its stop request (epoch only advanced when stopped); on the repaired tree solve/solve_all end their own epoch, so it needs an earlier session that manages its own timer around next_solution", ["C22"]),
 "C23-m1": ("C23", "a search that exceeds the limit and is truncated inside not(...): solve reports the made-up answer instead of the timeout", ["C23"]),
 "C23-m2": ("C23", "a particular interleaving: query N's timer fires after query N+1 has started (callback stops 'the current query')", ["C23", "C22"]),
 "C24-m1": ("C24", "the timer thread fires while the search polls the stop flag (non-atomic read of the atomic: data race, visible only to a race detector)", ["C24"]),
 "C24-m2": ("C24", "a cut executed in any rule body after a safe refactoring made the goal's node a protected &mut self during the recursive call (aliasing violation, no native symptom)", ["C24"]),
 # ---- second round (agents were told what the first round had produced) ----
 "C01-m3": ("C01", "a goal all of whose arguments face `$_`, after earlier bindings in the same proof (functor fast path: the unification returns the empty set, earlier bindings are lost)", ["C01", "C06", "C09"]),
 "C01-m4": ("C01", "a non-last goal of a conjunction that succeeds more than once without binding anything (duplicate facts, a disjunction of two true tests) and a tail with solutions (tail not rebuilt when the head returns the same Rc)", ["C01"]),
 "C02-m3": ("C02", "a disjunction in the caller whose non-last alternative is a single call to a predicate whose chosen clause executed a cut (Or reads the head node's flag instead of its own)", ["C02"]),
 "C02-m4": ("C02", "a parenthesised disjunction to the left of a cut, the goals after the cut fail, the active branch has a further solution (entry test removed from Or nodes)", ["C02"]),
 "C03-m3": ("C03", "a parsed not(order comparison) whose comparison fails for a non-ordinal reason: unbound operand, atom against number (rewritten into the opposite comparison)", ["C03", "C19"]),
 "C03-m4": ("C03", "a not(G) that failed, in the last clause tried of a predicate with several clauses, re-asked after exhaustion", ["C03", "C05"]),
 "C05-m3": ("C05", "a clause whose body runs a cut, a later clause whose head unifies, and a further request after 'no more' (the record of the cut is discarded with the rule body)", ["C05", "C02"]),
 "C05-m4": ("C05", "time(G) in a conjunction of the last clause tried, which failed, re-asked after exhaustion: the elapsed time is printed again", ["C05"]),
 "C07-m3": ("C07", "two already aliased variables, the unbound end on the left with the highest id so far (bounds test before the identity test)", ["C07", "C08"]),
 "C07-m4": ("C07", "an unbound variable on the left facing `$_` as a list element or bare operand (early return for `$_` on the right removed)", ["C07", "C09"]),
 "C09-m3": ("C09", "an already bound variable whose binding, or the other term, holds a nested `$_` and no variable ('ground' fast path compares with ==)", ["C09", "C06"]),
 "C09-m4": ("C09", "a `$_` list element aligned exactly with the other list's tail variable", ["C09", "C06", "C07"]),
 "C10-m4": ("C10", "a clause whose variables already carry ids (renamed before, or built with logic_var!(id, ..)): returned unchanged by the renamer", ["C10"]),
 "C12-m3": ("C12", "a whole-valued float literal as an operand of an infix expression with integers (infix re-spelled through Display and re-parsed: 2.0 becomes 2)", ["C12"]),
 "C12-m4": ("C12", "all-integer divide with a negative dividend or intermediate quotient and a remainder (div_euclid)", ["C12"]),
 "C04-m3": ("C04", "a head goal that succeeds more than once without binding anything, followed by output goals in a tail that never succeeds (tail not re-run when the head returns the same Rc): printed repetitions are lost, answers unchanged", ["C04"]),
 "C04-m4": ("C04", "a format string with %s markers that reaches print through a bound variable (only literal first arguments are treated as formats)", ["C04"]),
 "C06-m3": ("C06", "both lists have a tail at the same position, one of them `$_` (API-built), and an earlier element pair creates a binding: the call returns the substitution it was given", ["C06", "C09"]),
 "C06-m4": ("C06", "an already aliased pair of variables unified again with the bound one on the left (free 'other' bound directly without walking the chain): cycle", ["C06", "C08"]),
 "C08-m4": ("C08", "inside a complex term, a left variable with an id above every bound variable that is already aliased low-to-high ('fresh variable' fast path bypasses the alias walk)", ["C08", "C06"]),
 "C11-m3": ("C11", "not(G) on a call that, after dereferencing, holds two distinct unbound variables with the same *name* from different scopes (goal re-renamed by name inside not)", ["C11", "C03"]),
 "C11-m4": ("C11", "two variables of one clause whose names differ only in a trailing _<digits> suffix, read by the parser (printed form $X_12 accepted as id 12, name $X)", ["C11", "C19", "C20"]),
 "C13-m3": ("C13", "an arithmetic function against a numerically equal number of the other numeric type (add(1, 2) = 3.0 must fail like 3 = 3.0)", ["C13", "C12"]),
 "C13-m4": ("C13", "a variable first aliased to a newer unbound variable, then unified with a function on either side, the result observed through the other variable (fast path writes into the wrong slot)", ["C13"]),
 "C14-m3": ("C14", "float negative zero against positive float zero or integer zero (f64::total_cmp)", ["C14"]),
 "C14-m4": ("C14", "an ordering comparison between two atoms one of which is a proper prefix of the other (zip without length comparison)", ["C14"]),
 "C15-m3": ("C15", "append over a list with a chain of two bound tail variables (only the first is followed)", ["C15", "C16"]),
 "C15-m4": ("C15", "a result of append/include/exclude with >= 2 elements: inner nodes record the total length (k, k, .., 0); nothing in the engine reads it, answers unchanged", ["C15"]),
 "C16-m3": ("C16", "two inputs of one append call that reach the same bound tail variable (cycle guard shared across the arguments)", ["C16"]),
 "C16-m4": ("C16", "every input of append is an empty list (fails when nothing was collected)", ["C16"]),
 "C17-m3": ("C17", "a prefix* pattern that reaches functor() through a bound variable", ["C17"]),
 "C17-m4": ("C17", "a join argument that is a variable bound to a list", ["C17"]),
 "C18-m3": ("C18", "a query string that starts with a built-in function name, e.g. parse_query(\"add(1, 2)\") (dispatch moved into parse_complex; parse_query assumes a complex term)", ["C18"]),
 "C18-m4": ("C18", "a list whose contents begin with backslashes immediately followed by a delimiter, e.g. [\\,, a] (backwards scan without lower bound)", ["C18"]),
 "C19-m3": ("C19", "an atom spelled like a Rust float literal or special word: 1e5, inf, NaN (number classification by the standard library)", ["C19", "C20"]),
 "C19-m4": ("C19", "a rule (not a fact) with non-ASCII letters in the head (neck located by byte offset, used as char index)", ["C19", "C21"]),
 "C20-m3": ("C20", "a bare number-lookalike atom (1e5, inf) directly as an infix operand (numeric fast path for operands)", ["C20"]),
 "C20-m4": ("C20", "a multi-byte character inside a complex term (char indices used as byte offsets in parse_complex)", ["C20", "C18"]),
 "C21-m3": ("C21", "a rule whose last token is a float at bracket depth 0 (the final period is swallowed, the rule merges with the next or is dropped)", ["C21"]),
 "C21-m4": ("C21", "a legal line break directly after an infix operator: =, ==, <=, >=, - (lines joined with a newline; the infix scanner wants a blank)", ["C21"]),
 "C23-m4": ("C23", "solve_all on a search that exceeds the limit where an ancestor still has an untried cheap clause: an out-of-order answer is published before the timeout message", ["C23"]),
 "C24-m3": ("C24", "an older variable bound to a newer, still unbound variable, nothing with a higher id bound yet, then a built-in dereferences it (unchecked raw read past the end of the substitution set)", ["C24"]),
 "C24-m4": ("C24", "a cut directly inside a non-last alternative of a disjunction that then fails (a &mut kept live across the recursive call in the Or code; no native symptom)", ["C24"]),
 # ---- third round: changes that only manifest at SIZE (the agents were told the small scope is checked) ----
 "C01-m5": ("C01", "a clause or query with >= 9 distinct variables, the 9th or a later one used twice (8-entry inline variable map; the overflow map is written but never read)", ["C01", "C10"]),
 "C01-m6": ("C01", ">= 5 consecutive goal arguments that are non-variables facing fresh head variables (4-entry batch of pending bindings drops the pair that finds it full)", ["C01", "C07", "C06"]),
 "C02-m5": ("C02", "a cut that is the 16th goal of a body or deeper (ancestors collected in a 16-pointer array with zip: the outermost ones are never flagged)", ["C02"]),
 "C02-m6": ("C02", "a predicate with >= 65 clauses, a cut followed by a failure among the first 64 (64-bit candidate mask; explicit flag test removed)", ["C02"]),
 "C05-m5": ("C05", "a predicate with > 8 clauses queried with a bound first argument that matches only beyond a block of 8 non-matching clauses (u8 clause mask; 'no more' at a block boundary, an answer on the next request)", ["C05", "C01"]),
 "C06-m5": ("C06", "terms nested 255 deep or chains of 256 variables (u8 recursion-depth counter with checked_add)", ["C06", "C08"]),
 "C07-m5": ("C07", ">= 5 consecutive fresh left variables facing constants in one complex term (4-entry buffer); only the variable-left direction has the fast path", ["C07", "C06"]),
 "C07-m6": ("C07", "an alias chain of >= 9 hops (8-entry array of passed ids in the alias walk)", ["C07", "C08"]),
 "C08-m5": ("C08", "an alias chain through two bound variables whose ids are congruent mod 64 (visited-set bit mask with wrapping_shl), e.g. ids 1 and 65", ["C08", "C06"]),
 "C10-m5": ("C10", "a clause with >= 9 distinct variables whose 9th occurs more than once (the entry that triggers the move from the inline store to the hash map is forgotten)", ["C10", "C01"]),
 "C10-m6": ("C10", "two variable names of >= 17 bytes that share their first 16 bytes (renaming map keyed by a 16-byte prefix)", ["C10", "C01"]),
 "C15-m5": ("C15", "a list text nested three deep with the same bracket kind and a sibling before the innermost term (depth counters replaced by flags)", ["C15", "C19"]),
 "C15-m6": ("C15", "include/exclude with >= 5 surviving elements (4-slot inline array; the element that overflows it is dropped)", ["C15", "C17"]),
 "C16-m5": ("C16", "append with >= 33 collected terms and a non-list argument after a list argument (unstable sort above the small-sort limit)", ["C16"]),
 "C16-m6": ("C16", "a bound tail variable with an id >= 64 (cycle guard in a u64 bit mask: shift overflow panic in the test profile)", ["C16", "C15"]),
 "C17-m5": ("C17", "include/exclude results of >= 5 elements come back out of order (inline part consed before the overflow part)", ["C17", "C15"]),
 "C17-m6": ("C17", "a functor prefix* pattern of >= 17 characters (16-character stack buffer drops the trailing *)", ["C17"]),
 "C18-m5": ("C18", "a goal with 9 brackets open at once (eight-slot parse stack without a capacity check: index out of bounds)", ["C18"]),
 "C18-m6": ("C18", "a goal text longer than 40 characters with a bracket fault in its last 19 characters (error-message excerpt sliced past the end)", ["C18"]),
 "C19-m5": ("C19", "a body goal with 5 brackets open at once (four-entry inline parse stack silently drops the fifth)", ["C19", "C18"]),
 "C19-m6": ("C19", "about 100 infix-arithmetic terms parsed in one thread (depth guard not decremented on the infix path; afterwards every parse is rejected)", ["C19", "C20"]),
 "C21-m5": ("C21", "a file of >= 21 rules with interleaved predicates (sort_unstable_by on the predicate key: clause order lost above the insertion-sort limit)", ["C21"]),
 "C21-m6": ("C21", "a source file longer than 8192 bytes (line assembled across a buffer refill is never cleared: later rules duplicated or lost)", ["C21"]),
 "C22-m5": ("C22", "a query of arity >= 8 (or nested 3 deep at arity 3) constructed before another query and run after it (8-entry work list in max_var_id underestimates the ids in use)", ["C22"]),
 "C22-m6": ("C22", "about 65 536 query epochs in one process, i.e. 22 000 to 65 535 earlier queries (epoch and stop request packed into 16 bits each)", ["C22"]),
 "C01-m7": ("C01", "one predicate called twice with ground arguments in one search, first with 2.0 (fails) and then with 2 (cache of failed ground goals keyed by the printed form)", ["C01", "C03"]),
 "C02-m7": ("C02", "a call, in the tail of a conjunction, to a predicate whose chosen clause cuts, and the caller backtracks into a goal to its left (tail node rewound instead of rebuilt, cut flag not cleared)", ["C02", "C01"]),
 "C03-m7": ("C03", "not(L = R) with L and R bound to an integer and the float of the same value (negated unification decided by the == routine)", ["C03"]),
 "C06-m7": ("C06", "a variable first aliased to a free variable and then bound as a list tail against a longer list (tail fast path overwrites the alias)", ["C06", "C08", "C01"]),
 "C08-m7": ("C08", "two variables already aliased, then two lists unified tail to tail where the left tail is the unbound end of the chain (cycle $T -> $U -> $T)", ["C08", "C06"]),
 "C16-m7": ("C16", "append of a list whose tail variable got its list through an alias, e.g. passed to a rule through a variable (tail looked up in one step)", ["C16", "C15"]),
 "C19-m7": ("C19", "a complex term of 501..1000 characters whose atoms are not ASCII (the 1000-character limit measured in bytes)", ["C19", "C18"]),
 "C21-m7": ("C21", "a comment delimiter inside parentheses (print format, quoted atom) and a trailing comment on the same line (search stops at the first delimiter)", ["C21"]),
 "C21-m8": ("C21", "a term split over lines inside parentheses and a trailing comment on the line that closes it (bracket depth shared by two code paths, clamp at zero lost)", ["C21"]),
 "C22-m7": ("C22", "two half-run queries stepped alternately A, B, A, B where B proves a rule with a body-only variable in a later goal (id counter restored to a value saved in an earlier call)", ["C22"]),
 "C03-m5": ("C03", "not nested three (or any odd number >= 3) deep ('redundant pairs' dropped one negation at a time)", ["C03"]),
 "C03-m6": ("C03", "a negated comparison of two different integers beyond 2^53 that round to the same f64 (fast path in the not node compares as f64)", ["C03"]),
 "C20-m5": ("C20", "an argument nested 3 deep in the same kind of bracket, e.g. f(g(h(a), b)) (one 'closer' slot instead of depth counters in parse_arguments)", ["C20", "C18", "C19"]),
 "C20-m6": ("C20", "a float of >= 17 significant digits as a list element (one-pass digit accumulation instead of str::parse)", ["C20"]),
 "C24-m5": ("C24", "a clause with >= 9 variables (raw pointer into a Vec that reallocates on the 9th insert: use after free, Miri only)", ["C24"]),
 "C24-m6": ("C24", "brackets or parentheses nested >= 9 deep in a rule body (inline 8-slot parse stack written through a raw pointer: out-of-bounds write, Miri only)", ["C24"]),
 "C04-m5": ("C04", "print_list of a list whose bound tail brings in >= 5 further elements (loop bounded by the node count of the outer list plus the set length: output silently cut)", ["C04"]),
 "C04-m6": ("C04", "a print goal with a marker and >= 4 arguments, i.e. two or more values beyond the markers (only one trailing value kept)", ["C04"]),
 "C09-m5": ("C09", "a complex term with >= 5 arguments facing $_ and a fresh variable of the other term at the 5th or a later one (4-slot array of $_ positions filled through zip)", ["C09", "C06"]),
 "C11-m5": ("C11", "two variables of one clause whose names share their first 8 bytes (names packed into a u64 key)", ["C11"]),
 "C11-m6": ("C11", "a name recreated exactly 256 clause fetches after its last use (shared variable table with a u8 generation stamp)", ["C11", "C01"]),
 "C12-m5": ("C12", "an integer outside the i32 range in arithmetic that also has a float argument (narrowed to 32 bits on promotion)", ["C12"]),
 "C12-m6": ("C12", "an integer literal above 2^53 in source text (literals parsed through f64)", ["C12", "C20"]),
 "C13-m5": ("C13", "join(...) whose text is >= 65 bytes unified with the atom it denotes, either side (64-byte stack buffer, overflow ignored)", ["C13"]),
 "C14-m5": ("C14", "two atoms of >= 8 bytes differing in two places inside one 8-byte word (word-wise comparison with native-endian loads)", ["C14"]),
 "C14-m6": ("C14", "a comparison operand >= 256 bindings away from its value (u8 hop counter in get_ground_term)", ["C14", "C08"]),
 "C23-m5": ("C23", "about 65 536 query epochs in one process: the ~32 768th solve_all or ~22 000th parsed-and-solved query reports a timeout or no answers although the search took microseconds (16-bit epoch field wraps onto the stop field)", ["C23", "C22"]),
}

def sh(cmd, cwd=None, env=None, timeout=None):
    e = dict(os.environ); e["CARGO_NET_OFFLINE"] = "true"
    if env: e.update(env)
    p = subprocess.run(cmd, shell=True, cwd=cwd, env=e, capture_output=True, text=True, timeout=timeout)
    return p.returncode, p.stdout + p.stderr

def nextest(wt, extra=""):
    for attempt in range(3):
        rc, out = sh(f"cargo nextest run --workspace --no-fail-fast --test-threads 8 --offline {extra}", cwd=wt)
        passed = len(set(l.split("]")[-1].strip() for l in out.splitlines() if re.match(r"\s+(PASS|LEAK)", l) and "::demo " not in l))
        failed = sorted(set(l.split("]")[-1].strip() for l in out.splitlines() if re.match(r"\s+FAIL", l) and "::demo " not in l))
        demo_fail = sorted(set(l.split("]")[-1].strip() for l in out.splitlines() if re.match(r"\s+FAIL", l) and "::demo " in l))
        demo_pass = len(set(l.split("]")[-1].strip() for l in out.splitlines() if re.match(r"\s+(PASS|LEAK)", l) and "::demo " in l))
        # the repository's own 30 ms timer test is load-sensitive: retry when it is the only failure
        if failed == [] or not all("test_query_timer" in f for f in failed):
            break
    return passed, failed, demo_pass, demo_fail

def run_seed(sid, official=False):
    prop, needs, checks = SEEDS[sid]
    sd = f"{V}/seeded/{sid}"
    wt = f"/tmp/wt_seed_{sid}"
    sh(f"git -C /repo worktree remove --force {wt}; rm -rf {wt} {wt}.verif")
    sh(f"git -C /repo worktree add --detach {wt} HEAD && cp /repo/Cargo.lock {wt}/")
    # the dependencies of the test suite (criterion & co.) are built once and copied
    if os.path.isdir(CACHE + "/target"):
        sh(f"cp -a {CACHE}/target {wt}/target")
    res = {"id": sid, "property": prop, "needs_to_manifest": needs, "repo_commit": sh("git -C /repo rev-parse --short HEAD")[1].strip()}
    ran = []
    try:
        rc, out = sh(f"git apply {sd}/patch.diff", cwd=wt)
        if rc != 0:
            res["confirmed"] = False; res["error"] = "patch does not apply: " + out[-300:]; return res
        shutil.copy(f"{sd}/demo.rs", f"{wt}/tests/demo.rs")
        if prop == "C24":
            p, f, _, _ = nextest(wt)
            ran.append("with patch: cargo nextest run --workspace (baseline + demo natively)")
            rc1, o1 = sh("cargo +nightly miri test --test demo --offline", cwd=wt, env={"MIRIFLAGS": "-Zmiri-disable-isolation -Zmiri-ignore-leaks"})
            ub_with = "Undefined Behavior" in o1
            sh("git checkout -q -- .", cwd=wt)
            rc0, o0 = sh("cargo +nightly miri test --test demo --offline", cwd=wt, env={"MIRIFLAGS": "-Zmiri-disable-isolation -Zmiri-ignore-leaks"})
            clean_without = rc0 == 0 and "Undefined Behavior" not in o0
            ran.append("cargo +nightly miri test --test demo --offline (with and without the patch)")
            res.update({"baseline_pass_with_patch": p, "baseline_fail_with_patch": f, "demo_ub_under_miri_with_patch": ub_with, "demo_clean_under_miri_without_patch": clean_without})
            res["confirmed"] = (p >= 100 and not f and ub_with and clean_without)
        else:
            p, f, dp, df = nextest(wt)
            sh("git checkout -q -- .", cwd=wt)
            _, _, dp0, df0 = nextest(wt, "--test demo")
            ran.append("with patch: cargo nextest run --workspace --no-fail-fast --test-threads 8 --offline (100 baseline tests + tests/demo.rs); without patch: cargo nextest run --test demo")
            res.update({"baseline_pass_with_patch": p, "baseline_fail_with_patch": f, "demo_failing_with_patch": len(df), "demo_passing_without_patch": dp0, "demo_failing_without_patch": len(df0)})
            res["confirmed"] = (p == 100 and not f and len(df) >= 1 and dp0 >= 1 and not df0)
        os.remove(f"{wt}/tests/demo.rs")
        # checks
        if official:
            vd, repo = V, "/repo"
            if sh("git -C /repo status --porcelain --untracked-files=no")[1].strip():
                res["error"] = "/repo not clean"; return res
        else:
            vd, repo = wt + ".verif", wt
            os.makedirs(vd, exist_ok=True)
            # the committed state of /verif (not the working tree, which may be mid-edit)
            sh(f"rm -rf {vd}; mkdir -p {vd}; git -C {V} archive HEAD -- . ':!seeded' ':!evidence' | tar -x -C {vd}")
            sh(f"sed -i 's#path = \"/repo\"#path = \"{wt}\"#' {vd}/harness*/Cargo.toml")
        sh(f"git -C {repo} apply {sd}/patch.diff")
        det = {}
        try:
            for c in checks:
                rc, out = sh(f"./check {c} --tier quick", cwd=vd, timeout=3600)
                lines = [l for l in out.splitlines() if re.match(r"^(VIOLATION|OK|FAIL|MACHINERY|KNOWN)", l)]
                hit = any(l.startswith(f"VIOLATION property={c}") for l in lines)
                det[c] = {"detected": hit, "exit": rc, "summary": (lines[-1] if lines else out[-200:])[:220], "first_violation": next((l for l in lines if l.startswith("VIOLATION")), "")[:200].replace(vd, V)}
        finally:
            sh(f"git -C {repo} checkout -q -- .")
        ran.append(("git -C /repo apply patch.diff; ./check <id> --tier quick; git -C /repo checkout -- ." if official else
                    "checks run from a private copy of /verif whose harness depends on the patched scratch worktree (tools/seeds.py), /repo untouched") + " for " + ", ".join(checks))
        res["checks"] = det
        res["detected_by"] = [c for c in checks if det[c]["detected"]]
        res["detected_by_own_property_check"] = det.get(prop, {}).get("detected", False)
    finally:
        res["what_was_run"] = ran
        sh(f"git -C /repo worktree remove --force {wt}; rm -rf {wt} {wt}.verif; git -C /repo worktree prune")
    return res

def main():
    if len(sys.argv) >= 2 and sys.argv[1] == "table":
        rows = []
        for sid in sorted(SEEDS):
            f = f"{V}/seeded/{sid}/meta.json"
            if not os.path.exists(f): continue
            m = json.load(open(f))
            rows.append(f"| {sid} | {m['property']} | {'yes' if m.get('confirmed') else 'NO'} | {', '.join(m.get('detected_by', [])) or '—'} | {', '.join(c for c in m.get('checks', {}) if not m['checks'][c]['detected']) or '—'} |")
        print("| seed | breaks | confirmed | detected by (quick) | run but silent |\n|---|---|---|---|---|")
        print("\n".join(rows))
        return
    args = sys.argv[2:]
    official = "--official" in args
    ids = [a for a in args if not a.startswith("--")] or sorted(SEEDS)
    jobs = 1 if official else int(os.environ.get("SEED_JOBS", "4"))
    build_cache()
    with concurrent.futures.ThreadPoolExecutor(max_workers=jobs) as ex:
        for res in ex.map(lambda s: run_seed(s, official), ids):
            with open(f"{V}/seeded/{res['id']}/meta.json", "w") as f:
                json.dump(res, f, indent=1); f.write("\n")
            print(res["id"], "confirmed" if res.get("confirmed") else "NOT-CONFIRMED", "detected by", res.get("detected_by"), "own:", res.get("detected_by_own_property_check"), flush=True)

if __name__ == "__main__":
    main()
