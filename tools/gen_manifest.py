#!/usr/bin/env python3
"""Generates /verif/MANIFEST.json from the table below (kept next to the code so
that the manifest, the engines and DESIGN.md stay in step)."""
import json, os, subprocess

HERE = os.path.dirname(os.path.dirname(os.path.abspath(__file__)))

E1_NOTE = ("Trusted base: the reference unifier in harness/src/refunify.rs (Robinson, triangular substitution, "
           "wildcard rule for `$_`), the term decoder in harness/src/term.rs, and the small-scope hypothesis "
           "(3 named variables, term depth <= 2, lists <= 3 elements). Pairs needing an occurs check are counted, not judged.")

CHECKS = {
    # id: (engine, category, technique, text, note, design_ref)
    "C06": ("e1", "model_checking", "explicit-state search over real substitution sets, reference unifier in lock-step",
            "Every ordered pair of a ~120-term universe (all encodings: canonical, renamed, parsed) is unified by the real code from every "
            "substitution set reachable by <= d real unifications; success, preservation of prior bindings, equality of the resolved operands and "
            "'no more than the mgu' are compared with a reference unifier on every transition.", E1_NOTE, "§2 E1, §3 C06"),
    "C07": ("e1", "model_checking", "explicit-state search over real substitution sets, both operand orders on every transition",
            "On every transition of the E1 space the real unify is called as A=B and as B=A; success and the vector of resolved variable values "
            "(up to renaming of unbound variables) must agree, for canonical, renamed and parsed encodings (head/goal case via f(list)).", E1_NOTE, "§2 E1, §3 C07"),
    "C08": ("e1", "model_checking", "explicit-state search over unification histories, acyclicity invariant on every reached state",
            "Every substitution set reached in the E1 spaces (including the alias space: depth 3-4 histories over three variables) is checked for "
            "binding cycles; already-aliased operands must add no binding; the engine's own resolver must terminate and agree with the bindings.", E1_NOTE, "§2 E1, §3 C08"),
    "C09": ("e1", "model_checking", "explicit-state search over real substitution sets, `$_` clauses checked on every transition",
            "All transitions with `$_` as operand, argument, list element or tail: no binding to `$_` is ever created, a top-level `$_` leaves the "
            "substitution set unchanged, and success equals the reference's wildcard reading.", E1_NOTE, "§2 E1, §3 C09"),
    "C13": ("e1", "model_checking", "explicit-state search: function terms x partners x both orders vs reference evaluation",
            "Every function term of a small family (add/subtract/multiply/divide/join, literal and variable arguments) is unified with every partner "
            "(variables, constants of each type equal/unequal to the value, other functions, nested in f(..) and [..]) in both orders, from every prior; "
            "the outcome must equal unifying the reference value.", E1_NOTE, "§2 E1, §3 C13"),
}

NOT_YET = {
}

def main():
    props = [json.loads(l) for l in open(os.path.join(HERE, "properties.jsonl"))]
    checks = []
    na = []
    for p in props:
        pid = p["id"]
        if pid in CHECKS:
            eng, cat, tech, text, note, ref = CHECKS[pid]
            checks.append({
                "property_id": pid,
                "quick_cmd": f"./check {pid} --tier quick",
                "thorough_cmd": f"./check {pid} --tier thorough",
                "evidence_file": f"/verif/evidence/{pid}.json",
                "replay_cmd_template": f"./check {pid} --replay {{path}}",
                "engine": eng,
                "level_claimed": {"category": cat, "text": text, "design_ref": ref},
                "level_note": note,
                "technique": tech,
            })
        else:
            na.append({"property_id": pid, "reason": NOT_YET.get(pid, "check not built yet in this round (planned: see DESIGN.md §3); nothing is claimed for it")})
    hook_commits = []
    try:
        out = subprocess.run(["git", "-C", "/repo", "log", "--format=%h %s"], capture_output=True, text=True).stdout
        hook_commits = [l.split()[0] for l in out.splitlines() if l.split(" ", 1)[1].startswith("verif-hook:")]
    except Exception:
        pass
    m = {
        "version": 1,
        "setup_cmd": "./setup.sh",
        "hooks": {
            "guard": "suiron_verif",
            "enable": "RUSTFLAGS=\"--cfg suiron_verif\" (set by ./check for the E5 harness only; E1-E4 and E6 run the unmodified crate)",
            "baseline_off_cmd": "cd /repo && cargo test --workspace --no-fail-fast --offline --lib --bins --tests",
            "source_commits": hook_commits,
            "add_only": True,
        },
        "engines": [
            {"name": "e1", "path": "harness/src/e1.rs", "serves_properties": ["C06", "C07", "C08", "C09", "C13"],
             "kind_free_text": "explicit-state BFS over real substitution sets; every transition is a real unify call judged against a reference unifier"},
        ],
        "checks": checks,
        "not_applicable": na,
        "notes": "All checks: ./check <id> [--tier quick|thorough]. Known findings: known_findings.json. Replays: replays/<id>/ (written only on violation).",
    }
    with open(os.path.join(HERE, "MANIFEST.json"), "w") as f:
        json.dump(m, f, indent=1)
        f.write("\n")

if __name__ == "__main__":
    main()
