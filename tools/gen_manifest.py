#!/usr/bin/env python3
"""Generates /verif/MANIFEST.json from the table below (kept next to the code so
that the manifest, the engines and DESIGN.md stay in step)."""
import json, os, subprocess

HERE = os.path.dirname(os.path.dirname(os.path.abspath(__file__)))

E1_NOTE = ("Trusted base: the reference unifier in harness/src/refunify.rs (Robinson, triangular substitution, "
           "wildcard rule for `$_`), the term decoder in harness/src/term.rs, and the small-scope hypothesis "
           "(3 named variables, term depth <= 2, lists <= 3 elements) for the exhaustive spaces; beyond it only the scale spaces (DESIGN §2, 'Scale families': "
           "chains of k variables, variable ids up to 257, terms nested / lists of n elements for every boundary size n up to 300) are covered. Pairs needing an occurs check are counted, not judged.")

CHECKS = {
    # id: (engine, category, technique, text, note, design_ref)
    "C06": ("e1", "model_checking", "explicit-state search over real substitution sets, reference unifier in lock-step",
            "Every ordered pair of a ~120-term universe (all encodings: canonical, renamed, parsed) is unified by the real code from every "
            "substitution set reachable by <= d real unifications; success, preservation of prior bindings, equality of the resolved operands and "
            "'no more than the mgu' are compared with a reference unifier on every transition.", E1_NOTE, "§2 E1, §3 C06"),
    "C07": ("e1", "model_checking", "explicit-state search over real substitution sets, both operand orders on every transition",
            "On every transition of the E1 space the real unify is called as A=B and as B=A; success and the vector of resolved variable values "
            "(up to renaming of unbound variables) must agree, for canonical, renamed and parsed encodings (head/goal case via f(list)).", E1_NOTE, "§2 E1, §3 C07"),
    "C08": ("e1", "model_checking", "explicit-state search over unification histories, acyclicity invariant on every reached state",
            "Every substitution set reached in the E1 spaces (including the alias space: depth 3-4 histories over three variables) is checked for "
            "binding cycles; already-aliased operands must add no binding; the engine's own resolver must terminate and agree with the bindings. "
            "Second part (programs that alias variables through rule heads): the alias, list/recursion and non-ground-fact program families are run on the real solver "
            "and every answer's substitution set is checked for cycles.", E1_NOTE, "§2 E1, §3 C08"),
    "C09": ("e1", "model_checking", "explicit-state search over real substitution sets, `$_` clauses checked on every transition",
            "All transitions with `$_` as operand, argument, list element or tail: no binding to `$_` is ever created, a top-level `$_` leaves the "
            "substitution set unchanged, and success equals the reference's wildcard reading.", E1_NOTE, "§2 E1, §3 C09"),
    "C13": ("e1", "model_checking", "explicit-state search: function terms x partners x both orders vs reference evaluation",
            "Every function term of a small family (add/subtract/multiply/divide/join, literal and variable arguments) is unified with every partner "
            "(variables, constants of each type equal/unequal to the value, other functions, nested in f(..) and [..]) in both orders, from every prior; "
            "the outcome must equal unifying the reference value.", E1_NOTE, "§2 E1, §3 C13"),
}

E2_NOTE = ("Trusted base: the reference interpreter harness/src/refsolve.rs (naive CPS depth-first search, no resume state) with the "
           "reference built-ins, first checked against the repository's own documented answers; the program generators of harness/src/gen.rs; "
           "the small-scope hypothesis for the exhaustive families; beyond it only the scale families of harness/src/gen_scale.rs (one size parameter at a time - clauses, goals, variables, list length, nesting, retries - "
           "at every boundary size up to 129, thorough 300) and the interaction family of harness/src/gen_mix.rs (every ordered pair of 18 features x 7 program shapes, plus constants that print alike) are covered. Programs on which the statements are silent (step budget, occurs check, arithmetic on unbound) are counted and skipped.")

CHECKS.update({
    "C01": ("e2", "model_checking", "bounded-exhaustive programs x queries x next_solution histories, reference interpreter in lock-step",
            "All programs of the core (1-2 clauses, and/or trees <= 3 leaves), lists/recursion (all clause and goal orders) and builtins families x queries "
            "are run to exhaustion on the real engine; every next_solution call is compared with the reference step (answer up to renaming, order, multiplicity); "
            "solve_all is run as a twin and its strings compared.", E2_NOTE, "§2 E2, §3 C01"),
    "C02": ("e2", "model_checking", "bounded-exhaustive cut programs x histories vs reference with the documented cut; permitted behaviours enumerated as choice scripts",
            "`!` at every leaf of every and/or tree <= 4 leaves, 1-3 clauses, caller/sibling wrappers. The reference implements exactly C02's clauses; where C02 is "
            "silent (re-entering a goal to the right of an executed cut) every permitted behaviour is enumerated and the engine must follow one of them.", E2_NOTE, "§2 E2, §3 C02, §7"),
    "C03": ("e2", "model_checking", "bounded-exhaustive not(G) programs x histories vs reference interpreter",
            "not(G) for G over calls, conjunctions, disjunctions, unifications, comparisons, nested not; before/after binding goals; inside and/or; second clauses and callers that backtrack into it.", E2_NOTE, "§2 E2, §3 C03"),
    "C04": ("e2", "model_checking", "bounded-exhaustive printing programs x histories; stdout captured per call vs reference trace",
            "print/print_list/nl among backtracking goals: the text written during each next_solution call (fd 1 redirected to a memfd) must equal the reference's trace slice.", E2_NOTE, "§2 E2, §3 C04"),
    "C05": ("e2", "model_checking", "all E2 families, every history continued 3 calls past the first 'no more'",
            "Every history of every family (reduced bounds) is re-asked three times after exhaustion: each call must return None and write nothing.", E2_NOTE, "§2 E2, §3 C05"),
    "C10": ("e2", "model_checking", "bounded-exhaustive terms / rules / queries renamed by the real code and compared structurally; all E2 families with a get_rule probe after every call",
            "(i) every term of the grammar (depth <= 2, thorough 3), every element sequence <= 4 as a list (with / without tail, inside a complex term), every rule of the rule grammar and every query is renamed "
            "by recreate_variables / get_rule / make_query / parse_query, once and twice: with ids erased the result must be identical to the input (derived PartialEq: list node structure, counts, tail markers, goal tree), "
            "same name <=> same id, every id fresh. (ii) after every next_solution call of every E2 family (incl. non-ground facts) a rule is fetched mid-search; none of its fresh ids may be live in the answer's substitution set or the query.", E2_NOTE, "§2 E2, §3 C10"),
    "C11": ("e2", "model_checking", "metamorphic: every history re-run under four alpha-renamings of the clauses",
            "Each program is re-run with (a) suffixed names, (b) every clause using the query's variable names, (c) $X/$Y swapped, (d) names that are pairwise distinct across clauses and the query; answers (up to renaming), order and output must be identical.", E2_NOTE, "§2 E2, §3 C11"),
})

E3_NOTE = ("Trusted base: the reference built-ins harness/src/refbuiltins.rs (written from the statements: checked i64 / f64 folds, Rust's own "
           "orderings, list functions on the harness term type) used by the reference interpreter; the value domains of harness/src/gen3.rs. "
           "Inputs on which the statement is silent (overflow, integer /0, unbound or non-numeric arguments, unbound list tails) are counted as skipped.outside.")

CHECKS.update({
    "C12": ("e2", "model_checking", "bounded-exhaustive argument tuples (1-4 numbers over 19 values) x 4 operations x presentation modes, via the real solver, vs reference fold",
            "Every 1-3-tuple over 11 integers and 8 floats (extremes, 2^53+1, -0.0, inf) and 4-tuples over 8 values, for add/subtract/multiply/divide, given literally, "
            "through one- and two-step variable chains, on either side of `=`, against equal / unequal / other-typed constants, and through the infix parser.", E3_NOTE, "§2 E3, §3 C12"),
    "C14": ("e2", "model_checking", "all operand pairs over a 28-value domain x 5 relations x chains x spellings, via the real solver, vs reference ordering",
            "28 operands (integer extremes, 2^53+-1, floats incl. -0.0 and infinities, unicode / spaced / empty atoms, non-constants, unbound, `$_`) in all pairs, five relations, "
            "literal and through 1-2 step chains, named form via API and named + infix forms through the parser; the unbound operand is exposed in the head to show nothing is bound.", E3_NOTE, "§2 E3, §3 C14"),
    "C15": ("e2", "model_checking", "all element sequences <= 5 over 8 element kinds through every list builder; decoded structure and well-formedness checked",
            "37 449 element sequences x {constructor without bar, constructor with 4 kinds of tail, parser with/without tail, renaming}; each built list is decoded and must hold "
            "exactly the elements (a trailing list is spliced only where documented) and be well formed (counts n..1, empty-list terminator, tail flag only on the last node). "
            "The lists built by append / include / exclude are checked through the solver in the same run.", E3_NOTE, "§2 E3, §3 C15"),
    "C16": ("e2", "model_checking", "all input tuples (1-3 over 17 values, 4 over 6) via the real solver vs reference concatenation",
            "Inputs: atoms, numbers, complex terms, [], nested / empty-element lists, lists with tails bound to lists (one and two steps), variables bound to each; "
            "Out unbound, equal, different, or a pattern.", E3_NOTE, "§2 E3, §3 C16"),
    "C17": ("e2", "model_checking", "bounded-exhaustive argument tuples for count / include / exclude / functor / join via the real solver vs reference functions",
            "count over the list domain incl. bound tails and constants; include/exclude: 9 filter patterns x all lists <= 3 over 6 elements (+ bound tails, bound elements), filter variable "
            "exposed in the head; functor: 10 terms x 10 patterns x 8 arities; join: all word/punctuation sequences <= 3 as arguments, list, list behind a variable, bound elements.", E3_NOTE, "§2 E3, §3 C17"),
})

E4_NOTE = ("Trusted base: the canonical printer / grammar in harness/src/term.rs, prog.rs and e4.rs (derived from the documented syntax), "
           "the values built through the public constructors, and the small-scope hypothesis. The parsers are the real ones; every call runs under catch_unwind in a watchdogged worker process.")

CHECKS.update({
    "C18": ("e4", "exploration", "bounded-exhaustive strings and corpus edits through all parser entry points under a crash/hang monitor (no reference model)",
            "Every string of length <= 5 (quick) / 6 (thorough) over a 26-symbol syntax alphabet and every single edit (thorough: double edits) of a 24-text valid corpus is given to all 10 parser "
            "entry points; plus scale inputs (nesting depth / item count / token length at every boundary size up to 129, thorough 1000, with truncations) and every single edit of four long texts; "
            "a panic (identified by site), abort, stack overflow or hang (10 s of the worker's own CPU time) is a violation. Exploration level: the oracle is only 'returns a value or an error message'.", E4_NOTE, "§2 E4, §3 C18"),
    "C19": ("e4", "model_checking", "bounded-exhaustive derivations of the canonical grammar: parse / Display / re-parse vs constructor-built values",
            "All terms of depth <= 2 (thorough 3), all leaf goals over depth-1 terms (calls, zero-arity goals in both spellings, =, named and infix comparisons and arithmetic, not, built-ins) and "
            "rules with and/or bodies of <= 3 goals: parse(canonical text) must equal the value built through the constructors, Display must give the canonical text, parse(Display) the same value.", E4_NOTE, "§2 E4, §3 C19"),
    "C20": ("e4", "model_checking", "every term text x 9 syntactic contexts on the real parsers; all nine parses must agree",
            "Term texts of the C19 grammar plus signed numbers, punctuation atoms, odd numerals and infix arithmetic, each parsed alone, as first/last complex argument, built-in argument, first/last list element, "
            "left/right operand of `=`, and query argument.", E4_NOTE, "§2 E4, §3 C20"),
    "C21": ("e4", "model_checking", "programs of 1-3 grammar rules x all (capped) subsets of legal break points x indentation / blank-line / comment styles, loaded by the real file reader vs rule-by-rule parse",
            "About 10^6 generated files per quick run: every rule of the grammar (plus float / infix / quoted extras and the repository's own rules) alone with every subset of break points after - , ; = (capped at 16; 64 thorough) "
            "and every style on the fully broken layout (indentation, blank lines between rules and inside a rule, comment lines between and inside rules, trailing comments); pairs and triples with sampled layouts, "
            "also spread over two sources (first k rules already in the knowledge base via add_rules or via a file of their own). load_kb_from_file must give exactly the rules parse_rule gives, in order, or (never observed) reject the file.", E4_NOTE, "§2 E4, §3 C21"),
})


TM_NOTE = ("Trusted base: shuttle's scheduler interface and its Mutex/Condvar/mpsc/thread models (sequentially consistent); the virtual clock and the timed wait built on them "
           "(harness_e5/shim/verif_sync); the generated shim is thread_timer 0.3.0's own source with three `use` lines rewritten (hash-checked by harness_e5/gen_shim.sh); "
           "the five hook events in src/time_out.rs (cfg suiron_verif) are the only places where time may pass inside a search; the reference interpreter for the expected answers. "
           "Bounds: 2-3 tasks, preemption and time-deviation bounds as listed in the evidence; real OS timing is covered only by the conformance runs and the real-time session histories.")

CHECKS.update({
    "C22": ("tm", "model_checking", "stateless exploration of the real code under a preemption- and time-deviation-bounded scheduler (two-session scenarios), plus exhaustive session histories in fresh processes with the real timer",
            "E5: scenarios S4 S5 S5b S8 S9 S10 S13 S13b (a session, idle time, a later session; earlier session fast, timed out, via solve or solve_all; later session via solve_all or next_solution, with variables or ground, built after or before the earlier one ran): every schedule within the bounds, "
            "time allowed to pass at every query_stopped() check; the later session must give its stand-alone result. Sessions: every history of <= 2 sessions over 35 sessions (8 fast queries x 4 modes, 3 on the slow query), "
            "length 3 over a sub-alphabet (thorough: all with <= 1 slow session, length 4 over the sub-alphabet), each in a fresh process with the real 1 s timer, compared with the reference answers; every history of >= 2 sessions runs twice: queries constructed one by one, and all constructed up front.", TM_NOTE, "§2 E5, §2 E2 sessions, §3 C22"),
    "C23": ("tm", "model_checking", "stateless exploration of the real solve / solve_all / timer code under a preemption- and time-deviation-bounded scheduler with a virtual clock; real-time conformance runs",
            "E5: S1 fast solve, S2 fast solve_all, S3/S3b slow solve_all (deadline may pass at any check; one big or several small steps), S4 two sessions, S6 repeated solve with idle time, S7 slow solve, "
            "S11/S12 a search truncated by the deadline inside not(...), S14/S15 a truncated search with a cheap later clause. Oracle: answers are a prefix of the reference sequence, complete iff no timeout message, a timeout message only if this call's own deadline passed, "
            "solve never reports an answer the reference does not have; no deadlock, no panic. Real-time runs with the genuine crate must land in the explored outcome sets.", TM_NOTE, "§2 E5, §3 C23"),
    "C24": ("miri", "exploration", "bounded-exhaustive corpus of call histories executed under Miri (Stacked Borrows and Tree Borrows, data-race detector on) as the per-execution UB monitor",
            "The corpus is enumerated from the E2 program families (cut at every position of every and/or shape with caller/sibling wrappers, not, nested and/or, recursion over lists, output, built-ins, non-ground facts), "
            "each run to exhaustion plus re-asks through next_solution / solve / solve_all / load_kb_from_file, plus histories in which the real 1 s timer fires in the middle of a search and further queries follow. "
            "Exploration level: the monitor decides each execution, the enumeration bounds what was executed; nothing is claimed beyond the corpus.",
            "Trusted base: Miri (nightly 1.97) and its experimental aliasing models; leaks are ignored (not UB). Data races: Miri's happens-before detector over the accesses that execute, real thread_timer crate, real time.", "§2 E6, §3 C24"),
})

NOT_YET = {
}

def main():
    props = [json.loads(l) for l in open(os.path.join(HERE, "properties.jsonl"))]
    checks = []
    na = []
    for p in props:
        pid = p["id"]
        if pid in CHECKS:
            eng, cat, tech, text, note, ref = CHECKS[pid]
            checks.append({
                "property_id": pid,
                "quick_cmd": f"./check {pid} --tier quick",
                "thorough_cmd": f"./check {pid} --tier thorough",
                "evidence_file": f"/verif/evidence/{pid}.json",
                "replay_cmd_template": f"./check {pid} --replay {{path}}",
                "engine": eng,
                "level_claimed": {"category": cat, "text": text, "design_ref": ref},
                "level_note": note,
                "technique": tech,
            })
        else:
            na.append({"property_id": pid, "reason": NOT_YET.get(pid, "check not built yet in this round (planned: see DESIGN.md §3); nothing is claimed for it")})
    hook_commits = []
    try:
        out = subprocess.run(["git", "-C", "/repo", "log", "--format=%h %s"], capture_output=True, text=True).stdout
        hook_commits = [l.split()[0] for l in out.splitlines() if l.split(" ", 1)[1].startswith("verif-hook:")]
    except Exception:
        pass
    m = {
        "version": 1,
        "setup_cmd": "./setup.sh",
        "hooks": {
            "guard": "suiron_verif",
            "enable": "--cfg suiron_verif, set in harness_e5/.cargo/config.toml ([build] rustflags): only the E5 explorer (C22, C23) builds /repo with the hooks on; E1-E4 and E6 build the unmodified crate",
            "baseline_off_cmd": "cd /repo && cargo nextest run --workspace --no-fail-fast --test-threads 8 --offline",
            "source_commits": hook_commits,
            "add_only": True,
        },
        "engines": [
            {"name": "e1", "path": "harness/src/e1.rs", "serves_properties": ["C06", "C07", "C08", "C09", "C13"],
             "kind_free_text": "explicit-state BFS over real substitution sets; every transition is a real unify call judged against a reference unifier"},
            {"name": "e2", "path": "harness/src/e2.rs", "serves_properties": ["C01", "C02", "C03", "C04", "C05", "C10", "C11", "C12", "C14", "C15", "C16", "C17"],
             "kind_free_text": "bounded-exhaustive programs x queries x call histories executed on the real engine, each call compared with a reference interpreter"},
            {"name": "e4", "path": "harness/src/e4.rs, harness/src/e4b.rs", "serves_properties": ["C18", "C19", "C20", "C21"],
             "kind_free_text": "bounded-exhaustive strings / grammar derivations / file layouts through the real parsers and file reader"},
            {"name": "tm", "path": "harness_e5/ (explorer vh5), harness/src/e5run.rs (driver), harness/src/sessions.rs (real-time session histories)", "serves_properties": ["C22", "C23"],
             "kind_free_text": "stateless model checking of the real code: custom bounded-DFS shuttle scheduler (preemption bound, time-deviation bound, prefix-sharded), virtual clock, real thread_timer source on shuttle primitives; plus exhaustive session histories in forked fresh processes"},
            {"name": "miri", "path": "harness_miri/ (corpus runner vm), harness/src/miri.rs (corpus generator and driver)", "serves_properties": ["C24"],
             "kind_free_text": "bounded-exhaustive corpus of call histories under Miri, both aliasing models, sharded over processes"},
        ],
        "checks": checks,
        "not_applicable": na,
        "notes": "All checks: ./check <id> [--tier quick|thorough]. Known findings: known_findings.json. Replays: replays/<id>/ (written only on violation).",
    }
    with open(os.path.join(HERE, "MANIFEST.json"), "w") as f:
        json.dump(m, f, indent=1)
        f.write("\n")

if __name__ == "__main__":
    main()
