#!/bin/bash
# Runs the repository's baseline suite (guard off) the way BASELINE.json does:
# cargo nextest, one process per test (plain `cargo test` runs tests as threads
# of one process, and the crate's `static mut` globals make that racy).
# Exit 0 iff 100 passed and none failed.
cd /repo || exit 2
out=$(CARGO_NET_OFFLINE=true cargo nextest run --workspace --no-fail-fast --test-threads 8 --offline 2>&1)
line=$(echo "$out" | grep -E "Summary" | tail -1)
echo "$line"
if echo "$line" | grep -q "100 tests run: 100 passed"; then exit 0; fi
echo "$out" | grep -E "FAIL|panicked" | head -20
exit 1
