#!/bin/bash
# Runs the repository's baseline suite (lib + integration tests, guard off) and
# prints the pass/fail totals. Exit 0 iff 100 passed and none failed.
cd /repo || exit 2
out=$(CARGO_NET_OFFLINE=true cargo test --workspace --no-fail-fast --offline --lib --bins --tests 2>&1)
passed=$(echo "$out" | grep -E "^test result" | sed -E 's/.* ([0-9]+) passed.*/\1/' | paste -sd+ | bc)
failed=$(echo "$out" | grep -E "^test result" | sed -E 's/.* ([0-9]+) failed.*/\1/' | paste -sd+ | bc)
echo "passed=$passed failed=$failed"
if [ "$passed" = "100" ] && [ "$failed" = "0" ]; then exit 0; fi
echo "$out" | grep -E "FAILED|panicked|error" | head -20
exit 1
