#!/usr/bin/env python3
"""seed_prompt3.py <id>: brief for a third-round seeding sub-agent: as round two, but the change must
need SIZE to manifest (the small cases are assumed to be checked)."""
import json, sys, importlib.util
pid = sys.argv[1]
spec = importlib.util.spec_from_file_location("seeds", "/verif/tools/seeds.py"); seeds = importlib.util.module_from_spec(spec); spec.loader.exec_module(seeds)
p = next(json.loads(l) for l in open('/verif/properties.jsonl') if json.loads(l)['id'] == pid)
prev = [f"  - {v[1]}" for k, v in sorted(seeds.SEEDS.items()) if v[0] == pid]
wt = f"/tmp/wt3_{pid}"; out = f"/tmp/seed_out3/{pid}"
print(f"""You are working on a scratch git worktree of the Rust crate suiron-rust (a small Prolog-like inference engine: term parser, unification, substitution sets, a backtracking solver with cut, not and built-ins) at {wt}. Work ONLY inside {wt} and write your results to {out}/. Do not read, list or touch /verif or /repo or any other directory under /tmp. Everything is offline (no network); always pass --offline to cargo and set CARGO_NET_OFFLINE=true. (The worktree already contains a pre-built target/ directory with the dependencies compiled, to save time.)

The following semantic property holds for the unmodified code in the worktree:

  {p['id']} - {p['title']}
  Statement: {p['statement']}
  Quantified over: {p['quantifier']['text']}

Your task: produce a change to the crate's source (files under src/ only; never edit or add to the existing tests) that BREAKS this property while
 (a) the crate still compiles, and
 (b) the existing test suite still passes completely. Run it with
       cd {wt} && CARGO_NET_OFFLINE=true cargo nextest run --workspace --no-fail-fast --test-threads 8 --offline
     All 100 tests must pass (use nextest, NOT plain `cargo test`). The test `time_out::test::test_query_timer` is timing-sensitive and may fail spuriously when the machine is loaded; if it is the only failure, re-run it alone to confirm.
 (c) the change is realistic (a plausible refactoring, optimisation, simplification or careless fix; no magic values, no feature deleted wholesale), AND
 (d) it only manifests at SIZE. Assume that somebody has already checked this property exhaustively on all SMALL cases: terms of depth <= 2, lists of <= 3 elements, clauses with <= 3 body goals, predicates with <= 3 clauses, <= 3 variables per clause, recursion over lists of <= 3 elements, histories of <= 3 calls or queries, strings of a handful of characters. Your change must behave exactly like the unmodified code on all such small cases and go wrong only on something bigger or longer in at least one dimension: the 4th or 5th element of a list, a 4th clause, nesting 3 or 4 deep, a 4th variable, an id or index or count that crosses a threshold (for example a variable id >= 10, a substitution set that has grown past some length, the 4th retry of a goal, a string of 10+ characters), a capacity, a fast path that is only taken above a size. The threshold must come about naturally from the change (a buffer size, a small-vector optimisation, a cached prefix, an off-by-one that only bites from the second chunk on, a depth counter of the wrong width) - not from an arbitrary `if n > 4`.

Changes of the following kinds have already been produced for this property by others; yours must be different:
{chr(10).join(prev)}

Deliverables, in {out}/m5/ (and, if you can find a second, genuinely different one, also {out}/m6/):
  - patch.diff : `git diff` against HEAD; it must apply to a clean checkout with `git apply patch.diff`.
  - demo.rs    : a Rust integration test (it will be copied to tests/demo.rs and run with `cargo nextest run --test demo --offline`) that uses only the crate's public API (`use suiron::*;`), FAILS with your change applied and PASSES on the unmodified code; it should also contain a passing control test showing that the small version of the same case is unaffected. Keep it deterministic.
  - notes.md   : what the change is, why it breaks the property, the exact size threshold and why it arises, and the commands you ran with their results.
Verify all of it yourself before finishing: with the patch applied - build ok, 100/100 existing tests pass, demo fails; without the patch - demo passes. At the end leave the worktree clean (`git checkout -- .`, remove tests/demo.rs) and do not commit anything. Read the source first. Report briefly what you produced.""")
