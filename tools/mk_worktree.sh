#!/bin/bash
# mk_worktree.sh <id>: scratch worktree of /repo HEAD under /tmp/wt_<id> for a seeding sub-agent
set -e
id="$1"
git -C /repo worktree add --detach /tmp/wt_$id HEAD >/dev/null 2>&1
cp /repo/Cargo.lock /tmp/wt_$id/Cargo.lock
mkdir -p /tmp/seed_out/$id
echo /tmp/wt_$id
