#!/usr/bin/env python3
"""seed_prompt4.py <id>: brief for a fourth-round seeding sub-agent: the change must need an INTERACTION of
two features (or a feature and a non-initial state) to manifest; small cases and single-dimension sizes are assumed checked."""
import json, sys, importlib.util
pid = sys.argv[1]
spec = importlib.util.spec_from_file_location("seeds", "/verif/tools/seeds.py"); seeds = importlib.util.module_from_spec(spec); spec.loader.exec_module(seeds)
p = next(json.loads(l) for l in open('/verif/properties.jsonl') if json.loads(l)['id'] == pid)
prev = [f"  - {v[1]}" for k, v in sorted(seeds.SEEDS.items()) if v[0] == pid]
wt = f"/tmp/wt4_{pid}"; out = f"/tmp/seed_out4/{pid}"
print(f"""You are working on a scratch git worktree of the Rust crate suiron-rust (a small Prolog-like inference engine: term parser, unification, substitution sets, a backtracking solver with cut, not and built-ins) at {wt}. Work ONLY inside {wt} and write your results to {out}/. Do not read, list or touch /verif or /repo or any other directory under /tmp. Everything is offline (no network); always pass --offline to cargo and set CARGO_NET_OFFLINE=true. (The worktree already contains a pre-built target/ directory with the dependencies compiled, to save time.)

The following semantic property holds for the unmodified code in the worktree:

  {p['id']} - {p['title']}
  Statement: {p['statement']}
  Quantified over: {p['quantifier']['text']}

Your task: produce a change to the crate's source (files under src/ only; never edit or add to the existing tests) that BREAKS this property while
 (a) the crate still compiles, and
 (b) the existing test suite still passes completely. Run it with
       cd {wt} && CARGO_NET_OFFLINE=true cargo nextest run --workspace --no-fail-fast --test-threads 8 --offline
     All 100 tests must pass (use nextest, NOT plain `cargo test`). The test `time_out::test::test_query_timer` is timing-sensitive and may fail spuriously when the machine is loaded; if it is the only failure, re-run it alone to confirm.
 (c) the change is realistic (a plausible refactoring, optimisation, simplification or careless fix; no magic values, no feature deleted wholesale), AND
 (d) it only manifests through an INTERACTION. Assume that somebody has already checked this property exhaustively (1) on all SMALL cases of each feature on its own - terms of depth <= 2, lists of <= 3 elements, clauses with <= 3 body goals, predicates with <= 3 clauses, <= 3 variables per clause, histories of <= 3 calls - and (2) along ONE size dimension at a time (long lists, many clauses, many variables, deep nesting, long names, long histories, big numbers), everything else kept small and plain. Your change must behave exactly like the unmodified code on all of those and go wrong only when TWO things come together that such checks would naturally exercise separately: for example a built-in predicate inside a disjunction inside a recursive rule; a cut in a clause that is reached through `not` or a second time after backtracking into its caller; a variable that was first aliased and then bound through a list tail; an anonymous variable inside a term that is passed through two rule calls; a goal that fails after it has produced output; the second query on a knowledge base after the first one was abandoned half-way; a comment directly followed by a quoted atom; an infix operator next to a nested list. The dependence on the combination must come about naturally from the change (state that one feature leaves behind and the other reads, a cache keyed too coarsely, a flag shared by two code paths, a fast path whose precondition forgets one case) - not from an explicit test for the combination.

Changes of the following kinds have already been produced for this property by others; yours must be different:
{chr(10).join(prev)}

Deliverables, in {out}/m7/ (and, if you can find a second, genuinely different one, also {out}/m8/):
  - patch.diff : `git diff` against HEAD; it must apply to a clean checkout with `git apply patch.diff`.
  - demo.rs    : a Rust integration test (it will be copied to tests/demo.rs and run with `cargo nextest run --test demo --offline`) that uses only the crate's public API (`use suiron::*;`), FAILS with your change applied and PASSES on the unmodified code; it should also contain passing control tests showing that each of the two ingredients on its own is unaffected. Keep it deterministic.
  - notes.md   : what the change is, why it breaks the property, exactly which combination is needed and why neither part alone shows it, and the commands you ran with their results.
Verify all of it yourself before finishing: with the patch applied - build ok, 100/100 existing tests pass, demo fails; without the patch - demo passes. At the end leave the worktree clean (`git checkout -- .`, remove tests/demo.rs) and do not commit anything. Read the source first. Report briefly what you produced.""")
