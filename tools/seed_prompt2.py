#!/usr/bin/env python3
"""seed_prompt2.py <id>: brief for a second-round seeding sub-agent: property text, worktree,
and the list of changes already produced for this property (so that it finds different ones)."""
import json, sys, importlib.util
pid = sys.argv[1]
spec = importlib.util.spec_from_file_location("seeds", "/verif/tools/seeds.py"); seeds = importlib.util.module_from_spec(spec); spec.loader.exec_module(seeds)
p = next(json.loads(l) for l in open('/verif/properties.jsonl') if json.loads(l)['id'] == pid)
prev = [f"  - {v[1]}" for k, v in sorted(seeds.SEEDS.items()) if v[0] == pid]
wt = f"/tmp/wt2_{pid}"; out = f"/tmp/seed_out2/{pid}"
print(f"""You are working on a scratch git worktree of the Rust crate suiron-rust (a small Prolog-like inference engine: term parser, unification, substitution sets, a backtracking solver with cut, not and built-ins) at {wt}. Work ONLY inside {wt} and write your results to {out}/. Do not read, list or touch /verif or /repo or any other directory under /tmp. Everything is offline (no network); always pass --offline to cargo and set CARGO_NET_OFFLINE=true.

The following semantic property holds for the unmodified code in the worktree:

  {p['id']} - {p['title']}
  Statement: {p['statement']}
  Quantified over: {p['quantifier']['text']}

Your task: produce a change to the crate's source (files under src/ only; never edit or add to the existing tests) that BREAKS this property while
 (a) the crate still compiles, and
 (b) the existing test suite still passes completely. Run it with
       cd {wt} && CARGO_NET_OFFLINE=true cargo nextest run --workspace --no-fail-fast --test-threads 8 --offline
     All 100 tests must pass (use nextest, NOT plain `cargo test`: the crate has process-global state and plain cargo test is flaky). The test `time_out::test::test_query_timer` is timing-sensitive and may fail spuriously when the machine is loaded; if it is the only failure, re-run it alone to confirm. Doc tests are not part of the suite.
 (c) the change is realistic: the kind of bug a maintainer could introduce in a refactoring, an optimisation, a "simplification" or a careless fix. It must be SUBTLE: it needs something specific to manifest - a particular multi-step sequence of operations, an unusual-but-legal input shape, a particular thread interleaving or timing, a re-ask after exhaustion, an interaction between two features (for example cut with not, disjunction with output, tail variables with `$_`, a rule called recursively, a query re-used after another one), or two cooperating sites that each look fine alone - rather than being exposed at once by ordinary use of the library. Do NOT delete a feature wholesale, and do NOT special-case a magic value.

Changes of the following kinds have ALREADY been produced for this property by others; yours must be genuinely different (a different code site AND a different triggering condition), and preferably in a less obvious place (a shared helper, an interaction between modules, state kept across calls):
{chr(10).join(prev)}

Deliverables, in {out}/m3/ (and, if you can find a second, genuinely different one, also {out}/m4/):
  - patch.diff : `git diff` against HEAD; it must apply to a clean checkout with `git apply patch.diff`.
  - demo.rs    : a Rust integration test (it will be copied to tests/demo.rs and run with `cargo nextest run --test demo --offline`) that uses only the crate's public API (`use suiron::*;`), FAILS with your change applied and PASSES on the unmodified code. Keep it small and deterministic.{" For this property the demonstration is naturally a program run under Miri: `cargo +nightly miri test --test demo --offline` works offline here (MIRIFLAGS such as -Zmiri-disable-isolation -Zmiri-ignore-leaks -Zmiri-tree-borrows may be used); the demo must be reported as Undefined Behavior by Miri with your change and be clean (with -Zmiri-ignore-leaks) without it." if pid == "C24" else ""}
  - notes.md   : what the change is, why it breaks the property, exactly what is needed for it to manifest, and the commands you ran with their results.
Verify all of it yourself before finishing: with the patch applied - build ok, 100/100 existing tests pass, demo fails; without the patch - demo passes. At the end leave the worktree clean (`git checkout -- .`, remove tests/demo.rs) and do not commit anything. Read the source first to understand the mechanisms before choosing a change. Report briefly what you produced.""")
