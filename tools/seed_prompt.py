#!/usr/bin/env python3
"""seed_prompt.py <id>: the brief given to a seeding sub-agent (property text + worktree only)."""
import json, sys
pid = sys.argv[1]
p = next(json.loads(l) for l in open('/verif/properties.jsonl') if json.loads(l)['id'] == pid)
print(f"""You are working on a scratch git worktree of the Rust crate suiron-rust (a small Prolog-like inference engine: term parser, unification, substitution sets, a backtracking solver with cut, not and built-ins) at /tmp/wt_{pid}. Work ONLY inside /tmp/wt_{pid} and write your results to /tmp/seed_out/{pid}/. Do not read, list or touch /verif or /repo or any other /tmp/wt_* or /tmp/seed_out/* directory. Everything is offline (no network); always pass --offline to cargo and set CARGO_NET_OFFLINE=true.

The following semantic property holds for the unmodified code in the worktree:

  {p['id']} - {p['title']}
  Statement: {p['statement']}
  Quantified over: {p['quantifier']['text']}

Your task: produce a change to the crate's source (files under src/ only; never edit or add to the existing tests) that BREAKS this property while
 (a) the crate still compiles, and
 (b) the existing test suite still passes completely. Run it with
       cd /tmp/wt_{pid} && CARGO_NET_OFFLINE=true cargo nextest run --workspace --no-fail-fast --test-threads 8 --offline
     All 100 tests must pass (use nextest, NOT plain `cargo test`: the crate has process-global state and plain cargo test is flaky). Doc tests are not part of the suite.
 (c) the change is realistic: the kind of bug a maintainer could introduce in a refactoring, an optimisation, a "simplification" or a careless fix. It must need something specific to manifest - a particular multi-step sequence of operations, an unusual-but-legal input shape, a particular thread interleaving or timing, a re-ask after exhaustion, or two cooperating sites that each look fine alone - rather than being exposed at once by ordinary use of the library. Do NOT delete a feature wholesale, and do NOT special-case a magic value (no `if name == "xyzzy"`).

Deliverables, in /tmp/seed_out/{pid}/m1/ (and, if you can find a second, genuinely different change at a different code site or mechanism, also /tmp/seed_out/{pid}/m2/):
  - patch.diff : `git diff` against HEAD; it must apply to a clean checkout with `git apply patch.diff`.
  - demo.rs    : a Rust integration test (it will be copied to tests/demo.rs and run with `cargo nextest run --test demo --offline`) that uses only the crate's public API (`use suiron::*;`), FAILS with your change applied and PASSES on the unmodified code. Keep it small and deterministic.
  - notes.md   : what the change is, why it breaks the property, exactly what is needed for it to manifest, and the commands you ran with their results.
Verify all of it yourself before finishing: with the patch applied - build ok, 100/100 existing tests pass, demo fails; without the patch - demo passes. At the end leave the worktree clean (`git checkout -- .`, remove tests/demo.rs) and do not commit anything. Read the source first (start with src/lib.rs and the files the property is about) to understand the mechanisms before choosing a change. Report briefly what you produced.""")
