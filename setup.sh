#!/bin/bash
# Run once after a fresh restore, offline: builds the harness from files on disk.
set -e
cd "$(dirname "$0")"
export CARGO_NET_OFFLINE=true
(cd harness && cargo build --release --offline)
(cd harness_e5 && ./gen_shim.sh && cargo build --release --offline)
echo "setup done"
